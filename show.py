import json,sys
r=json.load(open(sys.argv[1] if len(sys.argv)>1 else '/tmp/dev/w.json'))
print('cases',r['cases'], 'wall',round(r['wall_s'],1), 'discards',r['discards'], 'infra',(r['infra'] or [])[:3])
for f in r['failures'] or []:
    print('*',f['viol']['signature'], 'count',f['count'], 'tape',f['min_from'],'->', len(f['tape'] or []), 'evals',f['min_evals'])
    print('     ', json.dumps(f['decoded'])[:600])
    print('     ', json.dumps(f['viol'].get('detail'))[:400])
print(json.dumps(r['stats'],indent=0).replace('\n',' '))
print(r['max_stats'])
