#!/bin/bash
# runmut.sh <patch.diff> <prop> [<prop>...]   apply a seeded change to /repo, run the quick checks, undo it.
# prints one line per property: CAUGHT / MISSED / INFRA
P=$1; shift
git -C /repo diff --quiet || { echo "/repo is dirty"; exit 2; }
git -C /repo apply "$P" || { echo "patch does not apply"; exit 2; }
trap 'git -C /repo checkout -- . ; git -C /repo clean -fdq -- . 2>/dev/null' EXIT
for prop in "$@"; do
  out=$(cd /verif && VERIF_EVIDENCE_DIR=/tmp/mut-evidence VERIF_REPLAY_DIR=/tmp/mut-replays ${QUICK_ENV:-} ./check $prop ${TIER:-quick} 2>&1)
  rc=$?
  case $rc in
    0) echo "$prop MISSED";;
    1) echo "$prop CAUGHT: $(echo "$out" | grep -E '^violation:' | head -3 | tr '\n' '|')";;
    *) echo "$prop INFRA(rc=$rc): $(echo "$out" | tail -5 | tr '\n' '|')";;
  esac
done
