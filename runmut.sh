#!/bin/bash
# runmut.sh <patch.diff> <prop> [<prop>...]
# Runs the quick checks against a patched COPY of /repo's HEAD (VERIF_REPO), so /repo itself is
# never touched and several runs can go on at once. Equivalent to: git -C /repo apply; ./check; git checkout.
# prints one line per property: CAUGHT / MISSED / INFRA
P=$(readlink -f "$1"); shift
R=$(mktemp -d /tmp/mutrepo.XXXXXX); trap 'rm -rf "$R"' EXIT
(cd /repo && git archive HEAD | tar -x -C "$R") || exit 2
(cd "$R" && patch -p1 -s < "$P") || { echo "patch does not apply"; exit 2; }
mkdir -p /tmp/mut-evidence /tmp/mut-replays
for prop in "$@"; do
  out=$(cd /verif && VERIF_REPO=$R VERIF_EVIDENCE_DIR=/tmp/mut-evidence VERIF_REPLAY_DIR=/tmp/mut-replays ./check $prop ${TIER:-quick} 2>&1)
  rc=$?
  case $rc in
    0) echo "$prop MISSED";;
    1) echo "$prop CAUGHT: $(echo "$out" | grep -E '^violation:' | head -3 | tr '\n' '|')";;
    *) echo "$prop INFRA(rc=$rc): $(echo "$out" | tail -5 | tr '\n' '|')";;
  esac
done
