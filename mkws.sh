#!/bin/bash
# mkws.sh <scratch-dir> [race]
# Generates the verification workspace from /repo's CURRENT working tree and
# builds the harness test binary (and a -race one when asked).
set -u
S=$1
export GOFLAGS=-mod=mod GOPROXY=off GOSUMDB=off GOTOOLCHAIN=local GOWORK=off
GO=go1.26.8
REPO=${VERIF_REPO:-/repo}
V=$(cd "$(dirname "$(readlink -f "$0")")" && pwd)
fail() { echo "BUILD-FAILURE: $*" >&2; exit 2; }
if [ ! -x $V/bin/instrument ] || [ $V/ws/tools/instrument/main.go -nt $V/bin/instrument ]; then
  (cd $V/ws && $GO build -o $V/bin/instrument ./tools/instrument) || fail "instrumenter does not build"
fi
mkdir -p $S/ws/gmarsp $S/ws/gmarsi $S/ws/cmd/gmars || fail mkdir
cp -r $V/ws/go.mod $V/ws/simrt $V/ws/ref $V/ws/h $S/ws/ || fail copy
for f in $REPO/*.go; do
  case $f in *_test.go) ;; *) cp $f $S/ws/gmarsp/ || fail copy ;; esac
done
[ -d $REPO/warriors ] && cp -r $REPO/warriors $S/ws/gmarsp/ && cp -r $REPO/warriors $S/ws/gmarsi/
$V/bin/instrument -mode lib -src $S/ws/gmarsp -out $S/ws/gmarsi -report $S/instrument.json || fail "instrumenter failed on the working tree"
$V/bin/instrument -mode cli -src $REPO/cmd/gmars -out $S/ws/cmd/gmars -libpath vws/gmarsp || fail "instrumenter failed on cmd/gmars"
cd $S/ws || fail cd
$GO vet ./gmarsp >/dev/null 2>$S/vet.log || true
$GO test -c -o $S/h.test ./h 2>$S/build.log || { cat $S/build.log >&2; fail "harness does not build against the working tree"; }
$GO build -o $S/gmars-cli ./cmd/gmars 2>>$S/build.log || { cat $S/build.log >&2; fail "cmd/gmars does not build"; }
if [ "${2:-}" = race ]; then
  $GO test -race -c -o $S/h.race.test ./h 2>>$S/build.log || { cat $S/build.log >&2; fail "race harness does not build"; }
fi
exit 0
