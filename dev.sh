#!/bin/bash
# dev helper: rebuild /tmp/dev workspace and run one in-process worker
# usage: dev.sh PROP CASES [seed]
rm -rf /tmp/dev/ws /tmp/dev/h.test; mkdir -p /tmp/dev && /verif/mkws.sh /tmp/dev ${RACE:-} || exit 2
cd /tmp/dev && VERIF_ROLE=worker VERIF_PROP=$1 VERIF_TIER=${TIER:-quick} VERIF_SEED=${3:-1} VERIF_WID=0 VERIF_NWORKERS=1 VERIF_CASES=$2 VERIF_OUT=/tmp/dev/w.json VERIF_CLI=/tmp/dev/gmars-cli timeout ${TMO:-600} ./h.test -test.run '^TestWorker$' -test.timeout=0 2>&1 | tail -${TAIL:-40}
