#!/bin/bash
# battery.sh <repo-dir> <prop> [<prop>...] : one workspace build from <repo-dir>, then the quick
# drivers of several properties with reduced case counts (mutation analysis helper, not a check).
# prints "<prop>=<rc>" per property; rc 0 quiet, 1 violation, 2 infra
R=$1; shift
V=/verif
S=$(mktemp -d /tmp/gmv.bat.XXXXXX) || exit 2
trap 'rm -rf "$S"' EXIT
RACE=""
for p in "$@"; do [ $p = C14 ] && RACE=race; done
VERIF_REPO=$R $V/mkws.sh $S $RACE >/dev/null 2>$S/mk.err || { echo "BUILD=2 $(tail -2 $S/mk.err | tr '\n' ' ')"; exit 2; }
declare -A N=([C13]=60000 [C15]=60000 [C02]=30000 [C04]=30000 [C05]=16000 [C06]=12000 [C09]=40000 [C10]=150000 [C14]=2500 [C17]=2500)
out=""
for p in "$@"; do
  VERIF_REPO=$R VERIF_SCRATCH=$S VERIF_PROP=$p VERIF_CLI=$S/gmars-cli VERIF_TIER=quick VERIF_ROLE=driver VERIF_CASES=${N[$p]} VERIF_WORKERS=${BW:-4} \
    VERIF_EVIDENCE_DIR=$S VERIF_REPLAY_DIR=$S/rp VERIF_KNOWN=$V/known_findings.json VERIF_MIN_TOTAL_SECONDS=2 VERIF_MAX_VIOL_CASES=5 VERIF_SEED=${VERIF_SEED:-7} \
    ${RACE:+VERIF_RACEBIN=$S/h.race.test} $S/h.test -test.run '^$' > $S/out.$p 2>&1
  rc=$?
  sig=""
  [ $rc = 1 ] && sig=$(grep -m1 '^violation:' $S/out.$p | cut -c12-90)
  [ $rc = 2 ] && sig=$(grep -m1 'INFRA' $S/out.$p | cut -c1-120)
  out="$out $p=$rc[$sig]"
done
echo "$out"
