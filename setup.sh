#!/bin/sh
exit 0
