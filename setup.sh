#!/bin/bash
# Run once after a fresh restore, offline: build the instrumenter and warm the
# Go build cache (go1.26.8 std, normal and -race) with one throw-away workspace.
set -u
export GOFLAGS=-mod=mod GOPROXY=off GOSUMDB=off GOTOOLCHAIN=local GOWORK=off
cd /verif/ws || exit 2
mkdir -p /verif/bin /verif/evidence /verif/replays
go1.26.8 build -o /verif/bin/instrument ./tools/instrument || exit 2
go1.26.8 test ./ref ./simrt >/dev/null 2>&1 || { echo "reference model self-tests failed" >&2; go1.26.8 test ./ref ./simrt; exit 2; }
S=$(mktemp -d /tmp/gmv.setup.XXXXXX) || exit 2
/verif/mkws.sh "$S" race
rc=$?
rm -rf "$S"
exit $rc
