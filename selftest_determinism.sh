#!/bin/bash
# Determinism self-test: for every engine, several seeds, the same slice of cases is run in fresh
# processes at GOMAXPROCS 1, 4 and 16 (twice each) and the per-case logs (tape, schedule trace,
# state hashes, ticks, verdicts) must be byte-identical. Exit 2 on any difference.
set -u
S=$(mktemp -d /tmp/gmv.det.XXXXXX); trap 'rm -rf $S' EXIT
/verif/mkws.sh $S race || exit 2
CASES=${CASES:-300}; fail=0; runs=0
for prop in C05 C09 C10 C13 C02 C04 C14; do
 for seed in ${SEEDS:-1 2 3 4 5}; do
  ref=""
  for gmp in 1 4 16 1 4 16; do
    runs=$((runs+1)); log=$S/log.$prop.$seed.$runs
    VERIF_ROLE=worker VERIF_PROP=$prop VERIF_TIER=quick VERIF_SEED=$seed VERIF_WID=0 VERIF_NWORKERS=1 VERIF_CASES=$CASES VERIF_MIN_EVALS=0 VERIF_MIN_TOTAL_SECONDS=0 \
      VERIF_GOMAXPROCS=$gmp VERIF_CASELOG=$log VERIF_OUT=$S/w.json VERIF_SCRATCH=$S VERIF_CLI=$S/gmars-cli $S/h.test -test.run '^TestWorker$' -test.timeout=0 >/dev/null 2>&1 || { echo "worker failed $prop seed=$seed"; fail=1; }
    if [ -z "$ref" ]; then ref=$log; else cmp -s $ref $log || { echo "DIFF $prop seed=$seed gomaxprocs=$gmp"; diff $ref $log | head -4; fail=1; }; fi
  done
 done
done
# the race build must produce the same logs as the normal build
for seed in 1 2; do
  VERIF_ROLE=worker VERIF_PROP=C14 VERIF_TIER=quick VERIF_SEED=$seed VERIF_WID=0 VERIF_NWORKERS=1 VERIF_CASES=150 VERIF_MIN_EVALS=0 VERIF_MIN_TOTAL_SECONDS=0 VERIF_CASELOG=$S/n.$seed VERIF_OUT=$S/w.json VERIF_SCRATCH=$S $S/h.test -test.run '^TestWorker$' -test.timeout=0 >/dev/null 2>&1
  VERIF_ROLE=worker VERIF_PROP=C14 VERIF_TIER=quick VERIF_SEED=$seed VERIF_WID=0 VERIF_NWORKERS=1 VERIF_CASES=150 VERIF_MIN_EVALS=0 VERIF_MIN_TOTAL_SECONDS=0 VERIF_CASELOG=$S/r.$seed VERIF_OUT=$S/w.json VERIF_SCRATCH=$S GORACE="halt_on_error=1 exitcode=66" $S/h.race.test -test.run '^TestWorker$' -test.timeout=0 >/dev/null 2>&1
  runs=$((runs+2)); cmp -s $S/n.$seed $S/r.$seed || { echo "DIFF race-vs-normal seed=$seed"; diff $S/n.$seed $S/r.$seed | head -4; fail=1; }
done
echo "determinism self-test: $runs process runs, $CASES cases each, fail=$fail"
[ $fail = 0 ] || exit 2
