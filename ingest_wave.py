#!/usr/bin/env python3
# ingest_wave.py <wave> <agent> <k> <prop> <verify-line> <first-result> [<after-result>] [<strengthened>]
# copies a confirmed sub-agent mutant from /tmp/wt/w<wave><agent>/mutants<wave>/ into /verif/seeded/<id>/
import json, os, shutil, sys
wave, agent, k, prop, verified, first = sys.argv[1:7]
after = sys.argv[7] if len(sys.argv) > 7 else first
strengthened = sys.argv[8] if len(sys.argv) > 8 else ""
src = "/tmp/wt/w%s%s/mutants%s" % (wave, agent, wave)
sid = "%s-w%s%sm%s" % (prop, wave, agent, k)
dst = "/verif/seeded/" + sid
os.makedirs(dst, exist_ok=True)
shutil.copy(src + "/m%s.diff" % k, dst + "/patch.diff")
shutil.copy(src + "/m%s_demo_test.go" % k, dst + "/demo_test.go")
notes = open(src + "/m%s.md" % k).read()
open(dst + "/notes.md", "w").write(notes)
meta = {
    "id": sid, "wave": int(wave), "breaks_property": prop,
    "source": "independent sub-agent (given only the property text and a scratch worktree; 12-minute budget; asked for rarely exercised code paths)",
    "needs_to_manifest": notes[:1200],
    "verified": verified,
    "ran": "./runmut.sh seeded/%s/patch.diff %s" % (sid, prop),
    "first_run_result": first.split(":")[0].strip(),
    "caught_by": first.partition(":")[2].strip(),
    "result_after_strengthening": after.split(":")[0].strip(),
}
if strengthened:
    meta["strengthened"] = strengthened
json.dump(meta, open(dst + "/meta.json", "w"), indent=1)
print(sid)
