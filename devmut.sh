#!/bin/bash
# devmut.sh <patch> PROP CASES : build a workspace from a patched copy of /repo (no change to /repo) and run one worker
rm -rf /tmp/mutrepo /tmp/devm && mkdir -p /tmp/mutrepo /tmp/devm && (cd /repo && git archive HEAD | tar -x -C /tmp/mutrepo) && (cd /tmp/mutrepo && patch -p1 -s < $1) || exit 2
VERIF_REPO=/tmp/mutrepo /verif/mkws.sh /tmp/devm ${RACE:-} || exit 2
BIN=h.test; [ -n "${RACE:-}" ] && BIN=h.race.test
cd /tmp/devm && VERIF_ROLE=worker VERIF_PROP=$2 VERIF_TIER=${TIER:-quick} VERIF_SEED=${4:-1} VERIF_WID=0 VERIF_NWORKERS=1 VERIF_CASES=$3 VERIF_OUT=/tmp/devm/w.json VERIF_CLI=/tmp/devm/gmars-cli VERIF_SCRATCH=/tmp/devm VERIF_MEMLIMIT_MB=6144 GORACE="halt_on_error=1 exitcode=66" timeout ${TMO:-600} ./$BIN -test.run '^TestWorker$' -test.timeout=0 2>&1 | tail -${TAIL:-5}
python3 /verif/show.py /tmp/devm/w.json 2>/dev/null | cut -c1-${CUT:-700}
