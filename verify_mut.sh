#!/bin/bash
# verify_mut.sh <ID> <k>: confirm a sub-agent's mutant in its scratch worktree:
# builds, passes the unedited suite, demo fails with the change and passes without.
ID=$1; K=$2; W=/tmp/wt/$ID; M=$W/${MUTDIR:-mutants}
export GOFLAGS=-mod=mod GOPROXY=off GOSUMDB=off
cd $W || exit 2
git checkout -q -- . ; rm -f $W/m*_demo_test.go
git apply $M/m$K.diff || { echo "$ID m$K: patch does not apply"; exit 1; }
go build . ./cmd/gmars || { echo "$ID m$K: build fails"; git checkout -q -- .; exit 1; }
suite=$(timeout 300 go test -vet=off -count=1 . 2>&1 | tail -1)
demo=$(ls $M/m${K}_demo_test.go 2>/dev/null)
RACEFLAG=""
grep -qi "\-race" $M/m$K.md 2>/dev/null && grep -qi "must be run with -race\|run with -race\|go test -race" $M/m$K.md && RACEFLAG="-race"
if [ -n "$demo" ]; then
  cp $demo $W/
  with=$(timeout 300 go test $RACEFLAG -vet=off -count=1 -run "Demo|demo|M${K}|m${K}" . 2>&1 | tail -1)
  git checkout -q -- .
  without=$(timeout 300 go test $RACEFLAG -vet=off -count=1 -run "Demo|demo|M${K}|m${K}" . 2>&1 | tail -1)
  rm -f $W/m${K}_demo_test.go
else
  with="(no go demo)"; without="(no go demo)"; git checkout -q -- .
fi
echo "$ID m$K | suite: $suite | demo with change: $with | demo without: $without"
