// Command mutate enumerates small syntactic mutations of one Go file and writes
// the k-th mutant. Used only to look for gaps in the checks (mutation analysis);
// it is not part of any registered check.
//
//	mutate -file f.go -count            prints the number of mutation points
//	mutate -file f.go -k 17 -out g.go   writes mutant 17 and prints its description
package main

import (
	"bytes"
	"flag"
	"fmt"
	"go/ast"
	"go/parser"
	"go/printer"
	"go/token"
	"os"
	"strconv"
)

type point struct {
	desc  string
	apply func()
}

func main() {
	file := flag.String("file", "", "")
	count := flag.Bool("count", false, "")
	k := flag.Int("k", -1, "")
	out := flag.String("out", "", "")
	flag.Parse()
	fset := token.NewFileSet()
	f, err := parser.ParseFile(fset, *file, nil, parser.ParseComments)
	if err != nil {
		fmt.Fprintln(os.Stderr, err)
		os.Exit(2)
	}
	var pts []point
	swap := map[token.Token]token.Token{token.LSS: token.LEQ, token.LEQ: token.LSS, token.GTR: token.GEQ, token.GEQ: token.GTR,
		token.EQL: token.NEQ, token.NEQ: token.EQL, token.ADD: token.SUB, token.SUB: token.ADD, token.LAND: token.LOR, token.LOR: token.LAND}
	pos := func(n ast.Node) string { p := fset.Position(n.Pos()); return fmt.Sprintf("%s:%d", p.Filename, p.Line) }
	inFunc := ""
	var walk func(n ast.Node) bool
	replaceStmt := func(list []ast.Stmt, i int, desc string) {
		orig := list[i]
		pts = append(pts, point{desc, func() { list[i] = &ast.EmptyStmt{Semicolon: orig.Pos(), Implicit: false} }})
	}
	handleList := func(list []ast.Stmt) {
		for i, st := range list {
			switch s := st.(type) {
			case *ast.ExprStmt:
				if c, ok := s.X.(*ast.CallExpr); ok {
					name := exprStr(fset, c.Fun)
					if name != "panic" {
						replaceStmt(list, i, fmt.Sprintf("%s %s: delete call %s(...)", pos(st), inFunc, name))
					}
				}
			case *ast.SendStmt:
				replaceStmt(list, i, fmt.Sprintf("%s %s: delete send", pos(st), inFunc))
			case *ast.AssignStmt:
				if s.Tok == token.ASSIGN && len(s.Lhs) == 1 {
					replaceStmt(list, i, fmt.Sprintf("%s %s: delete assignment %s = ...", pos(st), inFunc, exprStr(fset, s.Lhs[0])))
				}
				if s.Tok == token.ADD_ASSIGN || s.Tok == token.SUB_ASSIGN {
					ss := s
					pts = append(pts, point{fmt.Sprintf("%s %s: %s flipped", pos(st), inFunc, s.Tok), func() {
						if ss.Tok == token.ADD_ASSIGN {
							ss.Tok = token.SUB_ASSIGN
						} else {
							ss.Tok = token.ADD_ASSIGN
						}
					}})
				}
			case *ast.IncDecStmt:
				ss := s
				pts = append(pts, point{fmt.Sprintf("%s %s: %s flipped", pos(st), inFunc, s.Tok), func() {
					if ss.Tok == token.INC {
						ss.Tok = token.DEC
					} else {
						ss.Tok = token.INC
					}
				}})
			case *ast.BranchStmt:
				if s.Tok == token.BREAK || s.Tok == token.CONTINUE {
					// only inside loops is deletion compilable in general; try anyway, the compiler filters
					replaceStmt(list, i, fmt.Sprintf("%s %s: delete %s", pos(st), inFunc, s.Tok))
				}
			}
		}
	}
	walk = func(n ast.Node) bool {
		switch x := n.(type) {
		case *ast.FuncDecl:
			inFunc = x.Name.Name
		case *ast.BlockStmt:
			handleList(x.List)
		case *ast.CaseClause:
			handleList(x.Body)
		case *ast.BinaryExpr:
			if to, ok := swap[x.Op]; ok {
				xx := x
				from := x.Op
				pts = append(pts, point{fmt.Sprintf("%s %s: %s -> %s in %s", pos(x), inFunc, from, to, exprStr(fset, x)), func() { xx.Op = to }})
			}
			if x.Op == token.REM {
				xx := x
				pts = append(pts, point{fmt.Sprintf("%s %s: drop modulo in %s", pos(x), inFunc, exprStr(fset, x)), func() { xx.Op = token.ADD; xx.Y = &ast.BasicLit{Kind: token.INT, Value: "0"} }})
			}
		case *ast.BasicLit:
			if x.Kind == token.INT {
				if v, err := strconv.Atoi(x.Value); err == nil && v >= 0 && v < 100000 {
					xx := x
					nv := v + 1
					if v == 1 {
						nv = 0
					}
					pts = append(pts, point{fmt.Sprintf("%s %s: constant %d -> %d", pos(x), inFunc, v, nv), func() { xx.Value = strconv.Itoa(nv) }})
				}
			}
		case *ast.IfStmt:
			xx := x
			pts = append(pts, point{fmt.Sprintf("%s %s: negate condition %s", pos(x), inFunc, exprStr(fset, x.Cond)), func() {
				xx.Cond = &ast.UnaryExpr{Op: token.NOT, X: &ast.ParenExpr{X: xx.Cond}}
			}})
		}
		return true
	}
	ast.Inspect(f, walk)
	if *count {
		fmt.Println(len(pts))
		return
	}
	if *k < 0 || *k >= len(pts) {
		fmt.Fprintln(os.Stderr, "k out of range")
		os.Exit(2)
	}
	pts[*k].apply()
	var buf bytes.Buffer
	if err := printer.Fprint(&buf, fset, f); err != nil {
		fmt.Fprintln(os.Stderr, err)
		os.Exit(2)
	}
	if err := os.WriteFile(*out, buf.Bytes(), 0o644); err != nil {
		fmt.Fprintln(os.Stderr, err)
		os.Exit(2)
	}
	fmt.Println(pts[*k].desc)
}

func exprStr(fset *token.FileSet, e ast.Expr) string {
	var b bytes.Buffer
	printer.Fprint(&b, fset, e)
	s := b.String()
	if len(s) > 60 {
		s = s[:60] + "..."
	}
	return s
}
