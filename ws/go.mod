module vws

go 1.26.8
