package h

import (
	"bytes"
	"encoding/json"
	"fmt"
	"os"
	"os/exec"
	"path/filepath"
	"regexp"
	"runtime"
	"sort"
	"strings"
	"sync"
	"time"
)

type knownFinding struct {
	Property  string `json:"property"`
	Signature string `json:"signature"`
	Status    string `json:"status"` // open | fixed
	Commit    string `json:"commit,omitempty"`
	Example   any    `json:"example,omitempty"`
	Note      string `json:"note,omitempty"`
}

type knownFile struct {
	Findings []knownFinding `json:"findings"`
}

type driver struct {
	spec     *PropSpec
	prop     string
	tier     string
	seed     uint64
	workers  int
	cases    int64
	bin      string
	raceBin  string
	scratch  string
	evDir    string
	rpDir    string
	known    knownFile
	start    time.Time
	reports  []*WorkerReport
	failures []Failure
	infra    []string
	extra    map[string]any
	mu       sync.Mutex
	deadline time.Time
}

func getenv(k, def string) string {
	if v := os.Getenv(k); v != "" {
		return v
	}
	return def
}

func runDriver() int {
	d := &driver{start: time.Now(), extra: map[string]any{}}
	d.prop = os.Getenv("VERIF_PROP")
	d.spec = props[d.prop]
	if d.spec == nil {
		fmt.Fprintf(os.Stderr, "driver: unknown property %q\n", d.prop)
		return 2
	}
	d.tier = getenv("VERIF_TIER", "quick")
	d.seed = uint64(envInt("VERIF_SEED", 1))
	d.workers = int(envInt("VERIF_WORKERS", int64(min(16, runtime.NumCPU()))))
	d.cases = int64(d.spec.Quick)
	timeout := envInt("VERIF_TIMEOUT_S", 1500)
	if d.tier == "thorough" {
		d.cases = int64(d.spec.Thorough)
		timeout = envInt("VERIF_TIMEOUT_S", 4*3600)
	}
	d.cases = envInt("VERIF_CASES", d.cases)
	d.deadline = d.start.Add(time.Duration(timeout) * time.Second)
	d.bin = os.Args[0]
	d.raceBin = os.Getenv("VERIF_RACEBIN")
	d.scratch = getenv("VERIF_SCRATCH", os.TempDir())
	d.evDir = getenv("VERIF_EVIDENCE_DIR", "/verif/evidence")
	d.rpDir = getenv("VERIF_REPLAY_DIR", "/verif/replays")
	os.MkdirAll(d.evDir, 0o755)
	os.MkdirAll(d.rpDir, 0o755)
	if b, err := os.ReadFile(getenv("VERIF_KNOWN", "/verif/known_findings.json")); err == nil {
		if err := json.Unmarshal(b, &d.known); err != nil {
			fmt.Fprintf(os.Stderr, "driver: known_findings.json: %v\n", err)
			return 2
		}
	}
	if os.Getenv("VERIF_DRIVER_MODE") == "replay" {
		return d.replayMode(os.Getenv("VERIF_REPLAY"))
	}
	fmt.Printf("check %s tier=%s seed=%d cases=%d workers=%d\n", d.prop, d.tier, d.seed, d.cases, d.workers)

	d.runPool(d.bin, d.prop, d.cases, "")
	if d.spec.ExtraTier != nil {
		d.spec.ExtraTier(d)
	}
	return d.finish()
}

// runPool runs `cases` cases of property prop over the worker pool with the
// given binary; tag distinguishes several pools of one check.
func (d *driver) runPool(bin, prop string, cases int64, tag string) {
	var wg sync.WaitGroup
	for w := 0; w < d.workers; w++ {
		wg.Add(1)
		go func(w int) {
			defer wg.Done()
			d.runWorker(bin, prop, cases, w, tag)
		}(w)
	}
	wg.Wait()
}

var reRaceFn = regexp.MustCompile(`(?m)^\s+vws/gmars[ip]\.([^\s(]+(?:\([^)]*\))?[^\s(]*)\(`)
var reFatal = regexp.MustCompile(`(?m)^(fatal error: .*|panic: .*)$`)

func crashSignature(prop, stderr string, exitCode int) (class, disc string) {
	if strings.Contains(stderr, "DATA RACE") {
		fns := reRaceFn.FindAllStringSubmatch(stderr, 8)
		seen := map[string]bool{}
		var names []string
		for _, m := range fns {
			n := m[1]
			if !seen[n] {
				seen[n] = true
				names = append(names, n)
			}
			if len(names) == 2 {
				break
			}
		}
		sort.Strings(names)
		return "race", strings.Join(names, " vs ")
	}
	if m := reFatal.FindString(stderr); m != "" {
		if len(m) > 120 {
			m = m[:120]
		}
		fn := ""
		if f := reRaceFn.FindStringSubmatch(stderr); f != nil {
			fn = " in " + f[1]
		}
		return "host-crash", m + fn
	}
	return "host-crash", fmt.Sprintf("exit=%d", exitCode)
}

func tail(s string, n int) string {
	if len(s) > n {
		return s[len(s)-n:]
	}
	return s
}

func (d *driver) runWorker(bin, prop string, cases int64, wid int, tag string) {
	from := int64(0)
	restarts := 0
	for {
		out := filepath.Join(d.scratch, fmt.Sprintf("w%s-%s-%d-%d.json", tag, prop, wid, from))
		cmd := exec.Command(bin, "-test.run=^TestWorker$", "-test.timeout=0", "-test.count=1")
		var stderr, stdout bytes.Buffer
		cmd.Stderr = &stderr
		cmd.Stdout = &stdout
		cmd.Env = append(os.Environ(),
			"VERIF_ROLE=worker", "VERIF_PROP="+prop, "VERIF_TIER="+d.tier,
			fmt.Sprintf("VERIF_SEED=%d", d.seed), fmt.Sprintf("VERIF_WID=%d", wid),
			fmt.Sprintf("VERIF_NWORKERS=%d", d.workers), fmt.Sprintf("VERIF_CASES=%d", cases),
			fmt.Sprintf("VERIF_FROM=%d", from), "VERIF_OUT="+out,
			"GORACE=halt_on_error=1 exitcode=66", "GOTRACEBACK=all",
			"VERIF_MEMLIMIT_MB="+getenv("VERIF_MEMLIMIT_MB", "6144"),
		)
		if err := cmd.Start(); err != nil {
			d.addInfra(fmt.Sprintf("worker %d: start: %v", wid, err))
			return
		}
		done := make(chan error, 1)
		go func() { done <- cmd.Wait() }()
		var werr error
		timedOut := false
		select {
		case werr = <-done:
		case <-time.After(time.Until(d.deadline)):
			cmd.Process.Kill()
			werr = <-done
			timedOut = true
		}
		var rep WorkerReport
		if b, err := os.ReadFile(out); err == nil {
			if json.Unmarshal(b, &rep) == nil && rep.Done {
				d.mu.Lock()
				d.reports = append(d.reports, &rep)
				d.failures = append(d.failures, rep.Failures...)
				for _, s := range rep.Infra {
					d.infra = append(d.infra, s)
				}
				d.mu.Unlock()
				os.Remove(out)
				os.Remove(out + ".progress")
				if rep.AbortAt >= 0 {
					// the worker recycled itself after a runaway case
					from = rep.AbortAt - int64(wid) + int64(d.workers)
					restarts++
					if restarts > 6 {
						d.addInfra(fmt.Sprintf("worker %d: too many restarts", wid))
						return
					}
					continue
				}
				return
			}
		}
		if timedOut {
			d.addInfra(fmt.Sprintf("worker %d: watchdog timeout", wid))
			return
		}
		// crashed: which case?
		pb, _ := os.ReadFile(out + ".progress")
		var at int64 = -1
		fmt.Sscanf(strings.TrimSpace(string(pb)), "%d", &at)
		code := -1
		if ee, ok := werr.(*exec.ExitError); ok {
			code = ee.ExitCode()
		}
		if at < 0 {
			d.addInfra(fmt.Sprintf("worker %d: died before first case (exit %d): %s", wid, code, tail(stderr.String(), 2000)))
			return
		}
		class, disc := crashSignature(prop, stderr.String(), code)
		// confirm in a fresh process
		rf := ReplayFile{Property: prop, Engine: d.spec.Engine, Tier: d.tier, Seed: d.seed, Case: uint64(at)}
		confirmed, stderr2 := d.replayCrashes(bin, rf)
		if confirmed {
			c2, d2 := crashSignature(prop, stderr2, 0)
			if c2 == class {
				disc = d2
			}
			f := Failure{Viol: Violation{Prop: prop, Sig: prop + " " + class + " " + disc, Detail: map[string]any{"stderr_tail": tail(stderr2, 6000), "exit_code": code}}, Case: uint64(at), Count: 1}
			d.mu.Lock()
			d.failures = append(d.failures, f)
			d.mu.Unlock()
		} else {
			d.addInfra(fmt.Sprintf("worker %d: died at case %d (exit %d) but the case alone does not: %s", wid, at, code, tail(stderr.String(), 3000)))
		}
		d.mu.Lock()
		d.extra["worker_restarts"] = toInt(d.extra["worker_restarts"]) + 1
		d.mu.Unlock()
		restarts++
		if restarts > 4 {
			d.addInfra(fmt.Sprintf("worker %d: too many restarts", wid))
			return
		}
		// resume after the crashing case (keep the worker's residue class)
		from = at - int64(wid) + int64(d.workers)
	}
}

func toInt(v any) int {
	if i, ok := v.(int); ok {
		return i
	}
	return 0
}

func (d *driver) addInfra(s string) {
	d.mu.Lock()
	d.infra = append(d.infra, s)
	d.mu.Unlock()
}

// replayCrashes runs one case alone; true when the process dies again.
func (d *driver) replayCrashes(bin string, rf ReplayFile) (bool, string) {
	p := filepath.Join(d.scratch, fmt.Sprintf("crash-%s-%d.json", rf.Property, rf.Case))
	writeJSON(p, rf)
	_, stderr, err, _ := d.execReplay(bin, p)
	os.Remove(p)
	return err != nil, stderr
}

func (d *driver) execReplay(bin, path string) (map[string]any, string, error, bool) {
	out := path + ".out"
	cmd := exec.Command(bin, "-test.run=^TestReplay$", "-test.timeout=0", "-test.count=1")
	var stderr bytes.Buffer
	cmd.Stderr = &stderr
	cmd.Env = append(os.Environ(), "VERIF_ROLE=replay", "VERIF_REPLAY="+path, "VERIF_OUT="+out,
		"GORACE=halt_on_error=1 exitcode=66", "GOTRACEBACK=all", "VERIF_MEMLIMIT_MB="+getenv("VERIF_MEMLIMIT_MB", "6144"))
	done := make(chan error, 1)
	if err := cmd.Start(); err != nil {
		return nil, "", err, false
	}
	go func() { done <- cmd.Wait() }()
	var err error
	select {
	case err = <-done:
	case <-time.After(4 * time.Minute):
		cmd.Process.Kill()
		<-done
		return nil, stderr.String(), fmt.Errorf("replay watchdog"), true
	}
	var res map[string]any
	if b, e := os.ReadFile(out); e == nil {
		json.Unmarshal(b, &res)
	}
	os.Remove(out)
	return res, stderr.String(), err, false
}

func (d *driver) isKnown(prop, sig string) bool {
	for _, k := range d.known.Findings {
		if k.Property == prop && k.Signature == sig && k.Status == "open" {
			return true
		}
	}
	return false
}

func sigFile(sig string) string {
	s := strings.Map(func(r rune) rune {
		switch {
		case r >= 'a' && r <= 'z', r >= 'A' && r <= 'Z', r >= '0' && r <= '9':
			return r
		}
		return '-'
	}, sig)
	for strings.Contains(s, "--") {
		s = strings.ReplaceAll(s, "--", "-")
	}
	if len(s) > 90 {
		s = s[:90]
	}
	return fmt.Sprintf("%s-%08x", strings.Trim(s, "-"), uint32(hashStr(sig)))
}

func (d *driver) finish() int {
	// group failures by signature, smallest tape first
	bySig := map[string]*Failure{}
	counts := map[string]int64{}
	for i := range d.failures {
		f := &d.failures[i]
		counts[f.Viol.Sig] += f.Count
		cur, ok := bySig[f.Viol.Sig]
		if !ok || (f.Tape != nil && (cur.Tape == nil || len(f.Tape) < len(cur.Tape))) {
			bySig[f.Viol.Sig] = f
		}
	}
	sigs := sortedKeys(bySig)
	exit := 0
	violations := 0
	knownHit := []string{}
	var violLines []string
	for _, sig := range sigs {
		f := bySig[sig]
		rf := ReplayFile{Property: d.prop, Engine: d.spec.Engine, Tier: d.tier, Seed: d.seed, Case: f.Case, Tape: f.Tape,
			Labels: f.Labels, Decoded: f.Decoded, Verdict: "violation", Signature: sig, Detail: f.Viol.Detail, MinFrom: f.MinFrom, MinEvals: f.MinEvals}
		if f.Tape == nil {
			rf.Note = "process-level failure: replay regenerates the case from seed and case number"
		}
		path := filepath.Join(d.rpDir, sigFile(sig)+".json")
		must(writeJSON(path, rf))
		// replay in a fresh process: must reproduce
		bin := d.bin
		if strings.Contains(sig, " race ") && d.raceBin != "" {
			bin = d.raceBin
		}
		res, stderr, err, wd := d.execReplay(bin, path)
		reproduced := false
		if f.Unstable {
			reproduced = true // outside the deterministic core: reported with that note
			rf.Note = "found by the untouched copy under the Go runtime scheduler: reproduces with probability < 1"
			writeJSON(path, rf)
		} else if f.Tape == nil {
			reproduced = err != nil && !wd
		} else if res != nil {
			if vs, ok := res["violations"].([]any); ok {
				for _, v := range vs {
					if m, ok := v.(map[string]any); ok && m["signature"] == sig && m["property"] == d.prop {
						reproduced = true
					}
				}
			}
		}
		if !reproduced && f.Tape != nil {
			// perhaps the verdict depends on state that survived from earlier
			// cases of the same process: replay with that history
			rf.Tape = nil
			rf.Prelude = &Prelude{Worker: f.Worker, NWorkers: f.NWorkers, From: f.From}
			rf.Note = "the verdict depends on what ran earlier in the same process (state surviving between calls): the replay re-runs the preceding cases of that worker first"
			must(writeJSON(path, rf))
			res2, stderr2, _, _ := d.execReplay(bin, path)
			if res2 != nil {
				if vs, ok := res2["violations"].([]any); ok {
					for _, v := range vs {
						if m, ok := v.(map[string]any); ok && m["signature"] == sig && m["property"] == d.prop {
							reproduced = true
						}
					}
				}
			}
			stderr += stderr2
		}
		if !reproduced {
			d.infra = append(d.infra, fmt.Sprintf("non-replayable: %s (replay %s) %s", sig, path, tail(stderr, 1500)))
			continue
		}
		if d.isKnown(d.prop, sig) {
			knownHit = append(knownHit, sig)
			fmt.Printf("KNOWN-FINDING: property=%s %s (seen %d times; replay=%s)\n", d.prop, sig, counts[sig], path)
			continue
		}
		violations++
		exit = 1
		violLines = append(violLines, fmt.Sprintf("VIOLATION property=%s replay=%s", d.prop, path))
		fmt.Printf("violation: %s (seen %d times, tape %d -> %d draws after %d evaluations)\n", sig, counts[sig], f.MinFrom, len(f.Tape), f.MinEvals)
	}
	d.writeEvidence(violations, knownHit, counts)
	for _, l := range violLines {
		fmt.Println(l)
	}
	if len(d.infra) > 0 {
		for _, s := range d.infra {
			fmt.Fprintf(os.Stderr, "INFRA: %s\n", s)
		}
		if exit == 0 {
			exit = 2
		}
	}
	if exit == 0 {
		fmt.Printf("ok %s: property held on everything explored (%.1fs)\n", d.prop, time.Since(d.start).Seconds())
	}
	return exit
}

func (d *driver) writeEvidence(violations int, knownHit []string, counts map[string]int64) {
	stats := map[string]int64{}
	maxStats := map[string]int64{}
	discards := map[string]int64{}
	hashes := map[uint64]struct{}{}
	scheds := map[uint64]struct{}{}
	states := map[uint64]struct{}{}
	orders := map[uint64]struct{}{}
	var evals, nontriv int64
	var samples []any
	for _, r := range d.reports {
		evals += r.Cases
		nontriv += r.NonTrivial
		for k, v := range r.Stats {
			stats[k] += v
		}
		for k, v := range r.MaxStats {
			mergeMax(maxStats, k, v)
		}
		for k, v := range r.Discards {
			discards[k] += v
		}
		for _, h := range r.Hashes {
			hashes[h] = struct{}{}
		}
		for _, h := range r.Scheds {
			scheds[h] = struct{}{}
		}
		for _, h := range r.States {
			states[h] = struct{}{}
		}
		for _, h := range r.Orders {
			orders[h] = struct{}{}
		}
		for _, s := range r.Samples {
			if len(samples) < 8 {
				samples = append(samples, s)
			}
		}
	}
	bothWays := 0
	for o := range orders {
		if _, ok := orders[(o<<32)|(o>>32)]; ok && (o>>32) < (o&0xffffffff) {
			bothWays++
		}
	}
	wall := time.Since(d.start).Seconds()
	faults := map[string]int64{}
	probes := map[string]int64{}
	other := map[string]int64{}
	for k, v := range stats {
		switch {
		case strings.HasPrefix(k, "fault."):
			faults[k[6:]] = v
		case strings.HasPrefix(k, "probe."):
			probes[k[6:]] = v
		default:
			other[k] = v
		}
	}
	cov := map[string]any{
		"evaluations":                    evals,
		"distinct_nontrivial":            len(hashes),
		"nontrivial_total":               nontriv,
		"rule":                           d.spec.Rule,
		"samples":                        samples,
		"discarded_outside_domain":       discards,
		"faults_fired":                   faults,
		"reach_probes":                   probes,
		"counters":                       other,
		"maxima":                         maxStats,
		"distinct_schedules":             len(scheds),
		"distinct_states":                len(states),
		"cross_task_site_orderings":      len(orders),
		"site_pairs_seen_in_both_orders": bothWays,
		"simulated_ticks":                stats["ticks"],
		"runs_per_hour":                  int64(float64(evals) / wall * 3600),
		"seeds_per_hour":                 int64(float64(evals) / wall * 3600),
		"seed_note":                      "every case has its own PRNG stream derived from (VERIF_SEED, case number); one case = one simulated run = one replayable seed",
		"simulated_time_unit":            "ticks (function entries and loop iterations of instrumented gmars code) and scheduler steps",
		"scheduler_steps":                stats["sched.steps"],
		"distinct_measure":               "distinct_schedules = distinct (task,site,kind) decision traces; distinct_states = distinct (core, queues, cycle) snapshots after API calls (battle engines); lower bounds once a worker's set reaches 400000",
		"workers":                        d.workers,
		"real_components":                d.spec.Real,
		"stub_components":                d.spec.Stubs,
		"known_findings_hit":             knownHit,
		"violation_signatures":           counts,
		"exhaustive":                     false,
	}
	for k, v := range d.extra {
		cov[k] = v
	}
	if len(samples) == 0 {
		cov["samples"] = []any{"(no sample collected)"}
	}
	ev := map[string]any{
		"property_id": d.prop,
		"tier":        d.tier,
		"seed":        d.seed,
		"level":       d.spec.Level,
		"coverage":    cov,
		"assumptions": d.spec.Assume,
		"wall_s":      wall,
		"violations":  violations,
	}
	must(writeJSON(filepath.Join(d.evDir, d.prop+".json"), ev))
}

// c14Extra: the same case space again in the -race build (fewer cases, the
// detector costs ~10x), then the real-thread stress.
func c14Extra(d *driver) {
	if d.raceBin == "" {
		d.addInfra("C14: race binary missing")
		return
	}
	raceCases := d.cases / 4
	d.runPool(d.raceBin, d.prop, raceCases, "race")
	d.extra["race_build_cases"] = raceCases
	// stress
	out := filepath.Join(d.scratch, "stress.json")
	rounds := 12
	if d.tier == "thorough" {
		rounds = 120
	}
	cmd := exec.Command(d.raceBin, "-test.run=^TestStress$", "-test.timeout=0", "-test.count=1")
	var stderr bytes.Buffer
	cmd.Stderr = &stderr
	cmd.Env = append(os.Environ(), "VERIF_ROLE=stress", fmt.Sprintf("VERIF_SEED=%d", d.seed), fmt.Sprintf("VERIF_STRESS_ROUNDS=%d", rounds), "VERIF_OUT="+out,
		"GORACE=halt_on_error=1 exitcode=66", "GOTRACEBACK=all")
	err := cmd.Run()
	if err != nil {
		code := -1
		if ee, ok := err.(*exec.ExitError); ok {
			code = ee.ExitCode()
		}
		class, disc := crashSignature(d.prop, stderr.String(), code)
		if class == "race" {
			d.mu.Lock()
			d.failures = append(d.failures, Failure{Viol: Violation{Prop: d.prop, Sig: d.prop + " race (real-thread stress) " + disc,
				Detail: map[string]any{"stderr_tail": tail(stderr.String(), 6000), "note": "found by the real-thread stress: reproduces with probability < 1"}}, Case: 1_000_000, Count: 1})
			d.mu.Unlock()
			d.extra["stress"] = "race reported"
			return
		}
		d.addInfra(fmt.Sprintf("stress run failed (exit %d): %s", code, tail(stderr.String(), 3000)))
		return
	}
	var res map[string]any
	if b, e := os.ReadFile(out); e == nil {
		json.Unmarshal(b, &res)
	}
	d.extra["stress"] = res
	if res != nil {
		if mm, ok := res["mismatches"].(float64); ok && mm > 0 {
			d.mu.Lock()
			d.failures = append(d.failures, Failure{Viol: Violation{Prop: d.prop, Sig: d.prop + " interference (real-thread stress) job result differs from its sequential result", Detail: res}, Case: 1_000_000, Count: int64(mm)})
			d.mu.Unlock()
		}
	}
}

// replayMode re-runs one recorded case against the current working tree.
func (d *driver) replayMode(path string) int {
	b, err := os.ReadFile(path)
	if err != nil {
		fmt.Fprintf(os.Stderr, "replay: %v\n", err)
		return 2
	}
	var rf ReplayFile
	if err := json.Unmarshal(b, &rf); err != nil {
		fmt.Fprintf(os.Stderr, "replay: %v\n", err)
		return 2
	}
	if rf.Property != d.prop {
		fmt.Fprintf(os.Stderr, "replay: file is for property %s, not %s\n", rf.Property, d.prop)
		return 2
	}
	bin := d.bin
	if strings.Contains(rf.Signature, " race ") && d.raceBin != "" {
		bin = d.raceBin
	}
	tmp := filepath.Join(d.scratch, "replay-in.json")
	must(writeJSON(tmp, rf))
	res, stderr, rerr, wd := d.execReplay(bin, tmp)
	if wd {
		fmt.Fprintf(os.Stderr, "replay: watchdog\n")
		return 2
	}
	reproduced := false
	var seen []string
	if rf.Tape == nil {
		if rerr != nil {
			class, disc := crashSignature(rf.Property, stderr, 0)
			sig := rf.Property + " " + class + " " + disc
			seen = append(seen, sig)
			reproduced = sig == rf.Signature || strings.HasPrefix(rf.Signature, rf.Property+" "+class)
		}
	} else if res != nil {
		if vs, ok := res["violations"].([]any); ok {
			for _, v := range vs {
				if m, ok := v.(map[string]any); ok {
					seen = append(seen, fmt.Sprint(m["signature"]))
					if m["signature"] == rf.Signature && m["property"] == rf.Property {
						reproduced = true
					}
				}
			}
		}
	}
	fmt.Printf("replay of %s\n recorded: %s\n observed now: %v\n", path, rf.Signature, seen)
	if reproduced {
		fmt.Printf("VIOLATION property=%s replay=%s\n", rf.Property, path)
		return 1
	}
	fmt.Printf("not reproduced on the current tree\n")
	return 0
}
