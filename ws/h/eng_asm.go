package h

import (
	"bytes"
	"fmt"
	"regexp"
	"strings"
	"testing"
	"time"

	gi "vws/gmarsi"
	gp "vws/gmarsp"
	"vws/ref"
	"vws/simrt"
)

func cfgI(c gp.SimulatorConfig) gi.SimulatorConfig {
	return gi.SimulatorConfig{Mode: gi.SimulatorMode(c.Mode), CoreSize: gi.Address(c.CoreSize), Processes: gi.Address(c.Processes),
		Cycles: gi.Address(c.Cycles), ReadLimit: gi.Address(c.ReadLimit), WriteLimit: gi.Address(c.WriteLimit),
		Length: gi.Address(c.Length), Distance: gi.Address(c.Distance)}
}

// ---- conversions between gmars values and reference values (by NAME) ------

func opFromI(o gi.OpCode) ref.Op {
	switch o {
	case gi.DAT:
		return ref.DAT
	case gi.MOV:
		return ref.MOV
	case gi.ADD:
		return ref.ADD
	case gi.SUB:
		return ref.SUB
	case gi.MUL:
		return ref.MUL
	case gi.DIV:
		return ref.DIV
	case gi.MOD:
		return ref.MOD
	case gi.JMP:
		return ref.JMP
	case gi.JMZ:
		return ref.JMZ
	case gi.JMN:
		return ref.JMN
	case gi.DJN:
		return ref.DJN
	case gi.CMP:
		return ref.CMP
	case gi.SEQ:
		return ref.SEQ
	case gi.SNE:
		return ref.SNE
	case gi.SLT:
		return ref.SLT
	case gi.SPL:
		return ref.SPL
	case gi.NOP:
		return ref.NOP
	}
	return ref.NumOps + ref.Op(o)
}

func opToI(o ref.Op) gi.OpCode {
	return [...]gi.OpCode{gi.DAT, gi.MOV, gi.ADD, gi.SUB, gi.MUL, gi.DIV, gi.MOD, gi.JMP, gi.JMZ, gi.JMN, gi.DJN, gi.CMP, gi.SEQ, gi.SNE, gi.SLT, gi.SPL, gi.NOP}[o]
}

func modFromI(m gi.OpMode) ref.Mod {
	switch m {
	case gi.A:
		return ref.MA
	case gi.B:
		return ref.MB
	case gi.AB:
		return ref.MAB
	case gi.BA:
		return ref.MBA
	case gi.F:
		return ref.MF
	case gi.X:
		return ref.MX
	case gi.I:
		return ref.MI
	}
	return ref.NumMods + ref.Mod(m)
}

func modToI(m ref.Mod) gi.OpMode {
	return [...]gi.OpMode{gi.A, gi.B, gi.AB, gi.BA, gi.F, gi.X, gi.I}[m]
}

func modeFromI(m gi.AddressMode) ref.Mode {
	switch m {
	case gi.IMMEDIATE:
		return ref.Immediate
	case gi.DIRECT:
		return ref.Direct
	case gi.A_INDIRECT:
		return ref.AIndirect
	case gi.B_INDIRECT:
		return ref.BIndirect
	case gi.A_DECREMENT:
		return ref.APredec
	case gi.B_DECREMENT:
		return ref.BPredec
	case gi.A_INCREMENT:
		return ref.APostinc
	case gi.B_INCREMENT:
		return ref.BPostinc
	}
	return ref.NumModes + ref.Mode(m)
}

func modeToI(m ref.Mode) gi.AddressMode {
	return [...]gi.AddressMode{gi.IMMEDIATE, gi.DIRECT, gi.A_INDIRECT, gi.B_INDIRECT, gi.A_DECREMENT, gi.B_DECREMENT, gi.A_INCREMENT, gi.B_INCREMENT}[m]
}

func insFromI(i gi.Instruction) ref.Ins {
	return ref.Ins{Op: opFromI(i.Op), Mod: modFromI(i.OpMode), AMode: modeFromI(i.AMode), A: uint64(i.A), BMode: modeFromI(i.BMode), B: uint64(i.B)}
}

func insToI(i ref.Ins) gi.Instruction {
	return gi.Instruction{Op: opToI(i.Op), OpMode: modToI(i.Mod), AMode: modeToI(i.AMode), A: gi.Address(i.A), BMode: modeToI(i.BMode), B: gi.Address(i.B)}
}

func warFromI(w gi.WarriorData) ref.Warrior {
	out := ref.Warrior{Start: w.Start}
	if w.Code != nil {
		out.Code = make([]ref.Ins, len(w.Code))
		for i, c := range w.Code {
			out.Code[i] = insFromI(c)
		}
	}
	return out
}

func warToI(w ref.Warrior) gi.WarriorData {
	out := gi.WarriorData{Name: "w", Author: "a", Start: w.Start, Code: make([]gi.Instruction, len(w.Code))}
	for i, c := range w.Code {
		out.Code[i] = insToI(c)
	}
	return out
}

// pristine results are compared structurally through their printed form
func warIString(w gi.WarriorData) string {
	return fmt.Sprintf("%q|%q|%q|%d|%v|nil=%v", w.Name, w.Author, w.Strategy, w.Start, w.Code, w.Code == nil)
}

func warPString(w gp.WarriorData) string {
	return fmt.Sprintf("%q|%q|%q|%d|%v|nil=%v", w.Name, w.Author, w.Strategy, w.Start, w.Code, w.Code == nil)
}

// ---- one simulated assembly ------------------------------------------------

type asmRun struct {
	out      simrt.Outcome
	w        gi.WarriorData
	err      error
	returned bool
	rd       *simrt.Reader
}

const asmMaxTicks = 2_000_000
const asmMaxSteps = 120_000

// asmMaxSends is the fixed bound on tokens sent through the assembler's
// channels (all passes together) below which a run must finish within the
// tick and step budgets.
const asmMaxSends = 20_000

// hotFunc names the function that was spinning: among the busiest tick sites
// (at least half the maximum) the alphabetically first "file:func".
func hotFunc(top []string, at string) string {
	best := ""
	var maxc int64
	type sc struct {
		fn string
		c  int64
	}
	var all []sc
	for _, t := range top {
		var c int64
		name := t
		if i := strings.LastIndex(t, " x"); i >= 0 {
			fmt.Sscanf(t[i+2:], "%d", &c)
			name = t[:i]
		}
		parts := strings.SplitN(name, ":", 3)
		fn := name
		if len(parts) >= 2 {
			fn = parts[0] + ":" + parts[1]
		}
		all = append(all, sc{fn, c})
		if c > maxc {
			maxc = c
		}
	}
	for _, a := range all {
		if a.c*2 >= maxc && (best == "" || a.fn < best) {
			best = a.fn
		}
	}
	if best == "" {
		best = siteKey(at)
	}
	return best
}

func runAsm(t *testing.T, data []byte, plan simrt.ReaderPlan, tp *simrt.Tape, cfg gi.SimulatorConfig) *asmRun {
	r := &asmRun{}
	r.rd = simrt.NewReader(data, plan, tp)
	// the budgets grow with the input: a slower but linear reader, or a long
	// program re-streamed by up to 13 FOR passes, must never look like a hang
	// (2e6 ticks + 600 per delivered byte; 1.2e5 steps + 160 per delivered byte:
	// 4 steps per token and pass, a token per 1.5 bytes at worst, 13 passes)
	r.out = simrt.Run(t, simrt.Config{Tape: tp, MaxSteps: asmMaxSteps + 160*len(data), MaxTicks: asmMaxTicks + 600*int64(len(data))}, func() {
		r.w, r.err = gi.CompileWarrior(r.rd, cfg)
		r.returned = true
	})
	return r
}

var reFrame = regexp.MustCompile(`(?m)^vws/gmars[ip]\.(.+)\(`)

// topFrame returns the innermost gmars function on a panic stack.
func topFrame(stack string) string {
	// skip everything up to the runtime panic frame
	if i := strings.Index(stack, "panic("); i >= 0 {
		stack = stack[i:]
	}
	m := reFrame.FindStringSubmatch(stack)
	if m == nil {
		return "?"
	}
	fn := m[1]
	fn = strings.TrimSuffix(fn, "[...]")
	return fn
}

// siteKey strips the line number from a site name so that signatures survive
// unrelated edits: "file:func:kind#n@line" -> "file:func:kind#n".
func siteKey(s string) string {
	if i := strings.LastIndex(s, "@"); i >= 0 {
		return s[:i]
	}
	return s
}

func panicClass(v string) string {
	switch {
	case strings.Contains(v, "index out of range"):
		return "index-out-of-range"
	case strings.Contains(v, "nil pointer"):
		return "nil-pointer"
	case strings.Contains(v, "slice bounds"):
		return "slice-bounds"
	case strings.Contains(v, "divide by zero"):
		return "divide-by-zero"
	case strings.Contains(v, "closed channel"):
		return "closed-channel"
	}
	if len(v) > 40 {
		v = v[:40]
	}
	return v
}

// checkAsmRun applies oracles 1-4 of C05 and the C06 monitor to one run.
func checkAsmRun(res *Result, r *asmRun, tc *textCase, cfg gp.SimulatorConfig, which string) (usable bool) {
	res.stat("ticks", r.out.Ticks)
	res.stat("sched.steps", int64(r.out.Steps))
	if !r.out.Budget {
		res.stat("max.ticks", r.out.Ticks)
	}
	res.stat("max.tasks", int64(r.out.Tasks))
	for _, p := range r.out.Panics {
		res.add("C05", "C05 panic "+panicClass(p.Value)+" in "+topFrame(p.Stack), map[string]any{"run": which, "task": p.Name, "value": p.Value, "stack": tail(p.Stack, 3000)})
	}
	if len(r.out.Panics) > 0 {
		return false
	}
	if r.out.Budget {
		res.stat("max.sends-at-budget", r.out.Sends)
		// Outside the property's domain: FOR counts multiplying beyond the
		// fixed bound (measured as channel traffic) or EQU amplification.
		inDomain := r.out.Sends <= asmMaxSends || (tc.Pristine && r.out.Sends <= int64(64*tc.ExpTokens+4096))
		if !inDomain || tc.Amp > 10000 {
			res.Discard = "expansion beyond the stated FOR/EQU bound"
			return false
		}
		res.add("C05", "C05 no-progress in "+hotFunc(r.out.TopSites, r.out.BudgetAt), map[string]any{"run": which, "ticks": r.out.Ticks, "sends": r.out.Sends, "steps": r.out.Steps, "top_sites": r.out.TopSites})
		return false
	}
	if !r.out.MainDone {
		at := "?"
		if len(r.out.Deadlock) > 0 {
			at = siteKey(r.out.Deadlock[0].Site) + "/" + r.out.Deadlock[0].Kind
		}
		res.add("C05", "C05 deadlock main blocked at "+at, map[string]any{"run": which, "blocked": r.out.Deadlock})
		return false
	}
	if r.out.Sends > 0 {
		res.stat("max.ticks-per-send-x100", r.out.Ticks*100/r.out.Sends)
	}
	for _, l := range r.out.Leaked {
		res.add("C05", "C05 leak "+siteKey(l.Name)+" blocked at "+siteKey(l.Site)+"/"+l.Kind, map[string]any{"run": which, "task": l.Name, "site": l.Site})
	}
	zero := r.w.Name == "" && r.w.Author == "" && r.w.Strategy == "" && len(r.w.Code) == 0 && r.w.Start == 0
	if r.err != nil && !zero {
		res.add("C05", "C05 neither-nor-both error together with a warrior", map[string]any{"run": which, "err": r.err.Error(), "warrior": warIString(r.w)})
	}
	if r.err == nil && len(r.w.Code) == 0 && reLeadingInstr.Match(r.rd.Data()) {
		// nil and empty code are the same thing to a Go caller; an empty
		// result is only "neither" when the text visibly starts with an instruction
		res.add("C05", "C05 neither-nor-both no error and no warrior", map[string]any{"run": which})
	}
	if r.err == nil {
		res.stat("probe.assembled-ok", 1)
		if cfg.Mode == gp.ICWS88 {
			res.stat("probe.assembled-ok-88", 1)
		}
		if clause := ref.WellFormed(warFromI(r.w), uint64(cfg.CoreSize), int64(cfg.Length), cfg.Mode == gp.ICWS88); clause != "" {
			res.add("C06", "C06 "+clause, map[string]any{"run": which, "warrior": warIString(r.w), "length_limit": uint64(cfg.Length), "coresize": uint64(cfg.CoreSize)})
		}
		if len(r.w.Code) == int(cfg.Length) {
			res.stat("probe.length-exactly-at-limit", 1)
		}
	} else {
		res.stat("probe.assembly-error", 1)
		msg := r.err.Error()
		switch {
		case strings.HasPrefix(msg, "for:"):
			res.stat("probe.error-path-for", 1)
		case strings.Contains(msg, "cyclic"):
			res.stat("probe.error-path-cycle", 1)
		case strings.Contains(msg, "assertion"):
			res.stat("probe.error-path-assert", 1)
		case strings.Contains(msg, "symbol scanner"):
			res.stat("probe.error-path-scanner", 1)
		}
	}
	return true
}

type asmMix struct {
	program, mutated, soup, raw, corpus int // weights
	legalPct                            int
	faultPct                            int // percentage of cases with an in-flight fault
}

var mixC05 = asmMix{program: 30, mutated: 30, soup: 15, raw: 10, corpus: 15, legalPct: 85, faultPct: 40}
var mixC06 = asmMix{program: 50, mutated: 30, soup: 5, raw: 0, corpus: 15, legalPct: 70, faultPct: 30}

func genAsmText(tp *simrt.Tape, cfg gp.SimulatorConfig, mix asmMix) textCase {
	total := mix.program + mix.mutated + mix.soup + mix.raw + mix.corpus
	k := tp.Draw("gen.kind", total)
	var tc textCase
	switch {
	case k < mix.program:
		tc = genProgram(tp, cfg, mix.legalPct)
	case k < mix.program+mix.mutated:
		if tp.Draw("gen.mutbase", 3) == 0 {
			tc = genCorpus(tp)
		} else {
			tc = genProgram(tp, cfg, mix.legalPct)
		}
		n := 1 + tp.Draw("gen.nmut", 4)
		for i := 0; i < n; i++ {
			var kind string
			tc.Text, kind = mutate(tp, tc.Text, "mut")
			tc.Notes = append(tc.Notes, "mut:"+kind)
		}
		tc.Kind = "mutated"
		tc.Pristine = false
		tc.ExpTokens = tc.ExpTokens*8 + 4000
		tc.EquLines += 2
	case k < mix.program+mix.mutated+mix.soup:
		tc = genSoup(tp)
	case k < mix.program+mix.mutated+mix.soup+mix.raw:
		tc = genRaw(tp)
	default:
		tc = genCorpus(tp)
	}
	if tp.Draw("gen.prefix", 24) == 0 {
		// byte-order marks and other leading junk that a reader might want to
		// peel off before lexing
		pre := []string{"\xef\xbb\xbf", "\xff\xfe", "\xfe\xff", "\xef\xbb", "\x1a", "\x00", "#!", "\r\n"}[tp.Draw("gen.prefix.kind", 8)]
		tc.Text = append([]byte(pre), tc.Text...)
		tc.Notes = append(tc.Notes, "leading-bom-or-junk")
		tc.Pristine = false
	}
	return tc
}

// genStream draws how the text reaches the assembler: in-flight faults that
// change the stored bytes, and the legal delivery behaviour of the reader.
func genStream(tp *simrt.Tape, res *Result, text []byte, faultPct int) (delivered []byte, plan simrt.ReaderPlan, faults []string) {
	delivered = text
	plan.ErrAt = -1
	if tp.Draw("flt.any", 100) < faultPct {
		switch tp.Draw("flt.kind", 6) {
		case 0, 1: // truncation (writer crashed / short file), biased to the last line
			k := 0
			if len(text) > 0 {
				if tp.Draw("flt.trunc.bias", 3) == 0 {
					lastNL := bytes.LastIndexByte(text[:len(text)-1], '\n')
					k = lastNL + 1 + tp.Draw("flt.trunc.tail", len(text)-lastNL-1)
				} else {
					k = tp.Draw("flt.trunc.at", len(text))
				}
			}
			delivered = text[:k]
			faults = append(faults, fmt.Sprintf("trunc@%d", k))
			res.stat("fault.trunc", 1)
		case 2, 3: // read error after k bytes
			plan.ErrAt = tp.Draw("flt.err.at", len(text)+1)
			faults = append(faults, fmt.Sprintf("err@%d", plan.ErrAt))
		default: // stored bytes corrupted before delivery
			var kind string
			delivered, kind = mutate(tp, text, "flt.corrupt")
			faults = append(faults, "corrupt:"+kind)
			res.stat("fault.corrupt-"+kind, 1)
		}
	}
	plan.MaxChunk = []int{0, 1, 2, 3, 7, 64}[tp.Draw("rd.maxchunk", 6)]
	plan.ZeroReads = []int{0, 0, 2, 6}[tp.Draw("rd.zeroreads", 4)]
	plan.EOFWithData = tp.Draw("rd.eofwithdata", 2) == 1
	return
}

func readerStats(res *Result, rd *simrt.Reader) {
	if rd.Zero > 0 {
		res.stat("fault.zero-length-read", int64(rd.Zero))
	}
	if rd.Short > 0 {
		res.stat("fault.short-read", int64(rd.Short))
	}
	if rd.ErrFired {
		res.stat("fault.read-error", 1)
	}
	if rd.EOFWithDataFired {
		res.stat("fault.eof-with-data", 1)
	}
}

func schedHash(tr []simrt.Step) uint64 {
	var sb strings.Builder
	for _, s := range tr {
		fmt.Fprintf(&sb, "%d.%d.%d,", s.Task, s.Site, s.Kind)
	}
	return hashStr(sb.String())
}

// caseAsm: the assembler under the seeded scheduler, simulated reader and
// tape-driven map order. Emits C05, C06 and C14 violations.
func caseAsm(t *testing.T, tp *simrt.Tape, c *Ctx) (res Result) {
	mix := mixC05
	if c.Prop == "C06" {
		mix = mixC06
	}
	cfgP := genConfig(tp)
	cfg := cfgI(cfgP)
	tc := genAsmText(tp, cfgP, mix)
	delivered, plan, faults := genStream(tp, &res, tc.Text, mix.faultPct)
	if len(faults) > 0 {
		tc.Pristine = false
	}
	res.Decoded = map[string]any{"kind": tc.Kind, "text": string(delivered), "config": cfgMap(cfgP), "faults": faults, "notes": tc.Notes,
		"reader": map[string]any{"max_chunk": plan.MaxChunk, "zero_reads_of_16": plan.ZeroReads, "eof_with_data": plan.EOFWithData, "err_at": plan.ErrAt}}
	res.Hash = hashStr(string(delivered) + fmt.Sprint(cfgP, plan.ErrAt))
	res.NonTrivial = len(delivered) > 0
	res.stat("gen."+tc.Kind, 1)
	for _, n := range tc.Notes {
		if !strings.HasPrefix(n, "mut:") {
			res.stat("probe.shape."+n, 1)
		}
	}

	if tp.Draw("asm.decoy", 3) == 0 {
		// an earlier assembly of the same text under another configuration
		// must not influence this one
		dc := cfg
		dc.CoreSize = gi.Address([]uint64{8000, 800, 80, 8192, 55440, 7}[tp.Draw("asm.decoy.size", 6)])
		dc.ReadLimit, dc.WriteLimit, dc.Length, dc.Distance = dc.CoreSize, dc.CoreSize, min(dc.CoreSize, 100), 0
		dc.Mode = []gi.SimulatorMode{gi.ICWS94, gi.ICWS88}[tp.Draw("asm.decoy.mode", 2)]
		runAsm(t, delivered, simrt.ReaderPlan{ErrAt: -1}, simrt.ReplayTape(nil), dc)
		res.stat("probe.decoy-call-with-other-config", 1)
	}
	// baseline: whole buffer in one read, lowest-numbered runnable task first,
	// sorted map order
	base := runAsm(t, delivered, simrt.ReaderPlan{ErrAt: -1}, simrt.ReplayTape(nil), cfg)
	baseOK := checkAsmRun(&res, base, &tc, cfgP, "baseline")
	if res.Discard != "" {
		return
	}
	if !baseOK {
		return // already a violation; further schedules of a broken case add cost, not information
	}
	// second fixed schedule: highest-numbered runnable task first (every
	// producer runs ahead of its consumer as far as it can), reversed map order
	pf := runAsm(t, delivered, simrt.ReaderPlan{ErrAt: -1}, simrt.MaxTape(), cfg)
	pfOK := checkAsmRun(&res, pf, &tc, cfgP, "producer-first")
	if res.Discard != "" {
		return
	}
	if baseOK && pfOK && ((base.err == nil) != (pf.err == nil) || warIString(base.w) != warIString(pf.w)) {
		res.add("C14", "C14 nondeterminism assembly result depends on schedule, map order or read chunking", map[string]any{
			"baseline_err": fmt.Sprint(base.err), "variant_err": fmt.Sprint(pf.err), "baseline": warIString(base.w), "variant": warIString(pf.w), "variant_schedule": "producer-first"})
		res.add("C05", "C05 nondeterminism assembly result depends on schedule, map order or read chunking", map[string]any{
			"baseline_err": fmt.Sprint(base.err), "variant_err": fmt.Sprint(pf.err), "baseline": warIString(base.w), "variant": warIString(pf.w), "variant_schedule": "producer-first"})
	}
	if !pfOK {
		return
	}
	// variant: the drawn reader behaviour, schedule and map order
	v := runAsm(t, delivered, plan, tp, cfg)
	vOK := checkAsmRun(&res, v, &tc, cfgP, "variant")
	if res.Discard != "" {
		return
	}
	readerStats(&res, v.rd)
	res.SchedHash = schedHash(v.out.Trace)
	res.Orders = append(res.Orders, v.out.Orders...)
	res.Orders = append(res.Orders, pf.out.Orders...)
	res.Orders = append(res.Orders, base.out.Orders...)
	res.stat("map-ranges-permuted", int64(v.out.MapRanges))
	if v.out.Tasks > 2 {
		res.stat("probe.for-expander-ran", 1)
	}
	if v.out.Tasks > 3 {
		res.stat("probe.several-expander-passes-or-assert-lexers", 1)
	}
	if baseOK && vOK && plan.ErrAt < 0 {
		if (base.err == nil) != (v.err == nil) || warIString(base.w) != warIString(v.w) {
			res.add("C14", "C14 nondeterminism assembly result depends on schedule, map order or read chunking", map[string]any{
				"baseline_err": fmt.Sprint(base.err), "variant_err": fmt.Sprint(v.err), "baseline": warIString(base.w), "variant": warIString(v.w)})
			res.add("C05", "C05 nondeterminism assembly result depends on schedule, map order or read chunking", map[string]any{
				"baseline_err": fmt.Sprint(base.err), "variant_err": fmt.Sprint(v.err), "baseline": warIString(base.w), "variant": warIString(v.w)})
		} else if base.err != nil && base.err.Error() != v.err.Error() {
			res.stat("error-message-varies(not-compared)", 1)
		}
	}
	// no state may survive between assemblies: assemble a decoy under the SAME
	// configuration that defines every identifier of this text as an EQU (and
	// as a label), then assemble this text again: same result as before
	if baseOK && vOK && len(res.Viol) == 0 && tp.Draw("asm.clash", 4) == 0 {
		ids := identifiers(delivered)
		if len(ids) > 0 {
			var sb strings.Builder
			for i, id := range ids {
				if i%2 == 0 {
					fmt.Fprintf(&sb, "%s equ %d\n", id, 3+i)
				} else {
					fmt.Fprintf(&sb, "%s dat %d\n", id, i)
				}
			}
			runAsm(t, []byte(sb.String()), simrt.ReaderPlan{ErrAt: -1}, simrt.ReplayTape(nil), cfg)
			again := runAsm(t, delivered, simrt.ReaderPlan{ErrAt: -1}, simrt.ReplayTape(nil), cfg)
			sub := Result{}
			if checkAsmRun(&sub, again, &tc, cfgP, "after-decoy") && ((again.err == nil) != (base.err == nil) || warIString(again.w) != warIString(base.w)) {
				d := map[string]any{"before": fmt.Sprint(base.err, " ", warIString(base.w)), "after": fmt.Sprint(again.err, " ", warIString(again.w)), "decoy": sb.String()}
				res.add("C14", "C14 isolation assembly result depends on what was assembled before in the same process", d)
				res.add("C05", "C05 nondeterminism assembly result depends on what was assembled before in the same process", d)
				res.add("C06", "C06 assembly result depends on what was assembled before in the same process", d)
			}
			res.stat("probe.symbol-clash-decoy", 1)
		}
	}
	// thorough tier: fault enumeration for small inputs - truncation and read
	// error at EVERY byte position, baseline schedule
	if c.Tier == "thorough" && baseOK && vOK && len(tc.Text) > 0 && len(tc.Text) <= 120 && tp.Draw("asm.enum", 8) == 0 {
		for k := 0; k <= len(tc.Text); k++ {
			tr := runAsm(t, tc.Text[:k], simrt.ReaderPlan{ErrAt: -1}, simrt.ReplayTape(nil), cfg)
			checkAsmRun(&res, tr, &tc, cfgP, fmt.Sprintf("enumerated trunc@%d", k))
			er := runAsm(t, tc.Text, simrt.ReaderPlan{ErrAt: k}, simrt.MaxTape(), cfg)
			checkAsmRun(&res, er, &tc, cfgP, fmt.Sprintf("enumerated err@%d", k))
			if res.Discard != "" {
				res.Discard = ""
			}
		}
		res.stat("fault.enumerated-truncation-and-error-points", int64(2*(len(tc.Text)+1)))
	}
	// instrumentation transparency: the untouched copy, real goroutines
	if baseOK && vOK && pfOK && len(res.Viol) == 0 && tp.Draw("transparency", 8) == 0 {
		type pres struct {
			w   gp.WarriorData
			err error
		}
		ch := make(chan pres, 1)
		go func() {
			w, err := gp.CompileWarrior(bytes.NewReader(delivered), cfgP)
			ch <- pres{w, err}
		}()
		res.stat("transparency-checks", 1)
		select {
		case p := <-ch:
			if (p.err == nil) != (base.err == nil) || warPString(p.w) != warIString(base.w) {
				res.Infra = fmt.Sprintf("instrumentation transparency: pristine (%v,%s) vs instrumented (%v,%s)", p.err, warPString(p.w), base.err, warIString(base.w))
			}
		case <-time.After(15 * time.Second):
			// the instrumented copy terminated under both explored schedules,
			// the untouched copy under the Go runtime's schedule does not
			res.add("C05", "C05 no-progress untouched copy does not return under the Go runtime scheduler", map[string]any{"note": "instrumented copy terminated under both explored schedules"})
			res.add("C14", "C14 nondeterminism untouched copy does not return under the Go runtime scheduler", map[string]any{})
			res.Abort = true
		}
	}
	return
}

func init() {
	real := []string{"lexer (goroutine)", "FOR expander (goroutine per pass)", "symbol scanner", "parser", "compiler", "expression evaluator", "nested ;assert lexers"}
	stubs := []string{"io.Reader (simulated stream)", "goroutine scheduling choice (seeded controller over real goroutines)", "map iteration order (tape-permuted)", "time (tick clock)"}
	register(&PropSpec{
		ID: "C05", Engine: "asm", Fn: caseAsm, Quick: 300000, Thorough: 8000000, Level: "exploration",
		Rule: "a case = (configuration, text from program/mutated/soup/raw/corpus generators, in-flight fault, reader behaviour, schedule, map order) drawn from one tape; each case is assembled twice (baseline schedule, drawn schedule); non-trivial = delivered text non-empty; distinct = distinct (delivered bytes, configuration, error position)",
		Real: real, Stubs: stubs,
		Assume: []string{"verdicts are about the instrumented copy of the working tree; 1 in 8 clean cases is cross-checked against the untouched copy (transparency)",
			"tick budget 3e6 per assembly; cases whose channel traffic exceeds 64x the generator's expansion estimate are discarded as outside the FOR bound"},
	})
	register(&PropSpec{
		ID: "C06", Engine: "asm", Fn: caseAsm, Quick: 200000, Thorough: 4000000, Level: "exploration",
		Rule: "same engine as C05 with a generator mix biased to accepted programs (valid and near-valid, both dialects, length/ORG/END near-misses); the well-formedness monitor runs on every successful assembly (baseline and variant); non-trivial = delivered text non-empty; distinct as C05",
		Real: real, Stubs: stubs,
		Assume: []string{"legal '88 table and default modifiers written from the ICWS'88 standard / ICWS'94 draft in ref/legal88.go"},
	})
}

var reIdent = regexp.MustCompile(`[A-Za-z_][A-Za-z0-9_]*`)

// identifiers returns up to 12 distinct identifier-looking words of a text
// that are not opcodes, pseudo-ops or predefined constants.
func identifiers(text []byte) []string {
	skip := map[string]bool{"equ": true, "org": true, "end": true, "for": true, "rof": true, "coresize": true, "maxlength": true, "maxprocesses": true, "mindistance": true, "assert": true, "name": true, "author": true, "strategy": true, "redcode": true}
	for _, o := range ops94 {
		skip[o] = true
	}
	seen := map[string]bool{}
	var out []string
	for _, m := range reIdent.FindAll(text, 200) {
		w := string(m)
		lw := strings.ToLower(w)
		if skip[lw] || seen[w] || len(w) > 20 {
			continue
		}
		seen[w] = true
		out = append(out, w)
		if len(out) == 12 {
			break
		}
	}
	return out
}

// reLeadingInstr matches a text whose first non-blank, non-comment line is a
// plain instruction (optionally labelled), so that assembling it successfully
// must produce at least one instruction.
var reLeadingInstr = regexp.MustCompile(`(?i)\A(?:[ \t]*(?:;[^\n]*)?\r?\n)*[ \t]*(?:[a-z_][a-z0-9_]*:?[ \t]+)?(?:mov|add|sub|jmp|jmz|jmn|djn|cmp|slt|spl|dat)(?:\.(?:ab|ba|a|b|f|x|i))?[ \t]+[#$@<]?-?[0-9]+[ \t]*,[ \t]*[#$@<]?-?[0-9]+[ \t]*\r?\n`)
