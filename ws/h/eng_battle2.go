package h

import (
	"fmt"
	"testing"

	gi "vws/gmarsi"
	"vws/ref"
	"vws/simrt"
)

// caseBattle (C02): well-formed battles under different driving schedules.
func caseBattle(t *testing.T, tp *simrt.Tape, c *Ctx) (res Result) {
	cfg := genBattleConfig(tp, true)
	M := cfg.ref.M
	nw := 1 + tp.Draw("bat.nw", 4)
	if uint64(nw) > M {
		nw = int(M)
	}
	// process limit small enough to be hit, cycle limit around battle length
	if tp.Draw("bat.plimit", 2) == 0 {
		cfg.ref.P = uint64(1 + tp.Draw("bat.p", 3))
		cfg.gi.Processes = gi.Address(cfg.ref.P)
	}
	var ws []ref.Warrior
	var offs []uint64
	for i := 0; i < nw; i++ {
		ws = append(ws, genWarrior(tp, M, int(min(M, 6))))
		offs = append(offs, uint64(tp.Draw("bat.off", int(M))))
	}
	spawnOrder := make([]int, nw)
	for i := range spawnOrder {
		spawnOrder[i] = i
	}
	if tp.Draw("bat.spawnorder", 3) == 0 {
		for i := nw - 1; i > 0; i-- {
			j := tp.Draw("bat.spawnorder.j", i+1)
			spawnOrder[i], spawnOrder[j] = spawnOrder[j], spawnOrder[i]
		}
	}
	sched := tp.Draw("bat.schedule", 4)
	run := func(kind int, twin bool) (*histState, []bool) {
		h := newHist(&res, tp, cfg, c.Prop)
		if h.dead {
			return h, nil
		}
		for i := range ws {
			d := warToI(ws[i])
			var hd gi.Warrior
			f, _ := safeCall(20000+50*int64(M), func() { hd, _ = h.box.sim.AddWarrior(&d) })
			if f != nil {
				h.callFailed("AddWarrior", f)
				return h, nil
			}
			h.box.handles = append(h.box.handles, hd)
			h.data = append(h.data, ws[i])
			h.caller = append(h.caller, &d)
			h.spawned = append(h.spawned, false)
			h.offsets = append(h.offsets, 0)
			h.model.AddWarrior(ws[i])
			h.log("AddWarrior(%s)", warStr(ws[i]))
		}
		// spawning need not follow loading order; execution order must
		for _, i := range spawnOrder {
			h.opSpawn(i, offs[i])
			if h.dead {
				return h, nil
			}
		}
		// trustReturn: the driver stops only when RunCycle says so (0, or one
		// survivor); at the cycle limit RunCycle must say 0 without effect
		trustReturn := false
		stepUntilEnd := func(limit int) {
			for k := 0; k < limit && !h.dead; k++ {
				before := h.box.sim.CycleCount()
				var ret int
				h.log("RunCycle()")
				f, _ := safeCall(5000+400*int64(len(h.data)+1), func() { ret = h.box.sim.RunCycle() })
				if f != nil {
					h.callFailed("RunCycle", f)
					return
				}
				want, strict := h.model.RunCycle()
				if strict && ret != want {
					h.res.add("C02", "C02 refinement RunCycle return value", map[string]any{"got": ret, "want": want, "cycle": before})
				}
				h.observe("RunCycle", strict)
				if ret == 0 || (len(ws) > 1 && ret == 1) {
					return
				}
				if !trustReturn && h.box.sim.CycleCount() >= h.box.sim.MaxCycles() {
					return
				}
			}
		}
		switch kind {
		case 0: // one run-to-completion call
			h.opRun()
		case 1: // cycle by cycle until the battle reports its end
			stepUntilEnd(1 << 20)
		case 2: // some cycles stepped, queries in between, then Run
			k := tp.Draw("bat.presteps", 12)
			for j := 0; j < k && !h.dead; j++ {
				if h.model.Decided() || h.model.Cycle >= cfg.ref.C {
					break
				}
				h.opRunCycle()
				if tp.Draw("bat.query", 3) == 0 && !h.dead {
					h.opQueries()
				}
			}
			if !h.dead && !h.model.Decided() && h.model.Cycle < cfg.ref.C {
				// Run on a battle that is already over is outside what the
				// property compares (DESIGN.md 8.1)
				h.opRun()
			}
		default: // step until RunCycle itself reports the end
			trustReturn = true
			stepUntilEnd(int(cfg.ref.C) + 8)
		}
		if h.dead {
			return h, nil
		}
		var flags []bool
		for _, hd := range h.box.handles {
			flags = append(flags, hd.Alive())
		}
		return h, flags
	}
	h1, f1 := run(sched, false)
	if !h1.dead {
		// the same battle driven differently must end identically
		other := (sched + 1 + tp.Draw("bat.schedule2", 3)) % 4
		h2, f2 := run(other, true)
		if !h2.dead {
			s1, _ := takeSnap(h1.box)
			s2, _ := takeSnap(h2.box)
			if fmt.Sprint(f1) != fmt.Sprint(f2) || fmt.Sprint(s1) != fmt.Sprint(s2) {
				field := "final state"
				switch {
				case fmt.Sprint(f1) != fmt.Sprint(f2):
					field = "survivors"
				case s1.cycle != s2.cycle:
					field = "cycle count"
				case fmt.Sprint(s1.core) != fmt.Sprint(s2.core):
					field = "final core"
				case fmt.Sprint(s1.queues) != fmt.Sprint(s2.queues):
					field = "final queues"
				}
				res.add("C02", "C02 driving-schedule "+field+" differs between Run() and stepping", map[string]any{"schedule_a": sched, "schedule_b": other, "a": fmt.Sprint(f1, s1.cycle, s1.queues), "b": fmt.Sprint(f2, s2.cycle, s2.queues)})
			}
			res.stat("probe.twin-driving-schedules", 1)
		}
		// rematch: Reset, spawn the same warriors at the same places, drive
		// again on the SAME instance: the second battle must end exactly as
		// the first (every call still compared with the reference)
		if tp.Draw("bat.rematch", 3) == 0 {
			s1, _ := takeSnap(h1.box)
			h1.opReset()
			for _, i := range spawnOrder { // same places, same order
				if h1.dead {
					break
				}
				h1.opSpawn(i, offs[i])
			}
			if !h1.dead {
				h1.opRun()
			}
			if !h1.dead {
				s3, _ := takeSnap(h1.box)
				if fmt.Sprint(s1.alive, s1.cycle, s1.queues) != fmt.Sprint(s3.alive, s3.cycle, s3.queues) || fmt.Sprint(s1.core) != fmt.Sprint(s3.core) {
					res.add("C02", "C02 rematch after Reset ends differently from the first battle", map[string]any{"first": fmt.Sprint(s1.alive, s1.cycle, s1.queues), "second": fmt.Sprint(s3.alive, s3.cycle, s3.queues)})
				}
				res.stat("probe.rematch-after-reset", 1)
			}
		}
		// reach probes
		died := 0
		for _, a := range f1 {
			if !a {
				died++
			}
		}
		if nw >= 3 && died > 0 {
			res.stat("probe.warrior-died-in-3plus-battle", 1)
		}
		if nw > 1 && died == nw-1 {
			res.stat("probe.single-survivor", 1)
		}
		if h1.model.Cycle == cfg.ref.C {
			res.stat("probe.cycle-limit-reached", 1)
		}
		for _, w := range h1.model.Wars {
			if uint64(len(w.Queue)) == cfg.ref.P && cfg.ref.P > 1 {
				res.stat("probe.process-limit-hit", 1)
				break
			}
		}
	}
	h1.finishDecoded(&res, "battle")
	res.Decoded["driving_schedule"] = []string{"Run()", "RunCycle until end", "steps+queries then Run()", "RunCycle until end (variant)"}[sched]
	res.Decoded["offsets"] = offs
	return
}

var cfgFieldVals = []uint64{0, 1, 2, 3, 4, 7, 8, 100, 8000, 1 << 20}

func genAnyField(tp *simrt.Tape, label string, M uint64) uint64 {
	switch k := tp.Draw(label+".kind", 8); {
	case k < 4:
		return cfgFieldVals[tp.Draw(label+".fixed", len(cfgFieldVals))]
	case k == 7 && tp.Draw(label+".randsmall", 8) != 0:
		return uint64(tp.Draw(label+".rand.small", 300))
	case k == 4 && M > 0:
		return M - 1
	case k == 5:
		return M
	case k == 6:
		return M + 1
	default:
		return uint64(tp.Draw(label+".rand", 1<<20+1))
	}
}

// caseHostile (C04): arbitrary configurations, hostile programs, invariants
// after every call.
func caseHostile(t *testing.T, tp *simrt.Tape, c *Ctx) (res Result) {
	var cfg battleCfg
	sweep := tp.Draw("hos.sweep", 3) == 0
	if sweep {
		M := genAnyField(tp, "hos.m", 8)
		if tp.Draw("hos.msmall", 10) != 0 {
			M = uint64(tp.Draw("hos.m.small", 20))
		}
		rc := ref.Config{M: M, P: genAnyField(tp, "hos.p", M), C: genAnyField(tp, "hos.c", M), R: genAnyField(tp, "hos.r", M), W: genAnyField(tp, "hos.w", M)}
		if rc.C > 60 {
			rc.C = uint64(1 + tp.Draw("hos.c.cap", 60)) // keep battles short; the cap itself is exercised at small values
		}
		cfg = battleCfg{ref: rc, gi: gi.SimulatorConfig{Mode: []gi.SimulatorMode{gi.ICWS94, gi.ICWS88, gi.NOP94}[tp.Draw("hos.mode", 3)],
			CoreSize: gi.Address(M), Processes: gi.Address(rc.P), Cycles: gi.Address(rc.C), ReadLimit: gi.Address(rc.R), WriteLimit: gi.Address(rc.W),
			Length: gi.Address(genAnyField(tp, "hos.len", M)), Distance: gi.Address(genAnyField(tp, "hos.dist", M))}}
		res.stat("probe.config-sweep", 1)
	} else {
		cfg = genBattleConfig(tp, false)
	}
	h := &histState{res: &res, tp: tp, cfg: cfg, prop: c.Prop}
	box, err, f := newBox(cfg.gi)
	res.Decoded = map[string]any{"kind": "hostile", "config": fmt.Sprint(cfg.gi)}
	res.Hash = hashStr(fmt.Sprint(cfg.gi))
	if f != nil {
		res.add("C04", "C04 "+f.class+" NewSimulator "+f.disc, map[string]any{"config": fmt.Sprint(cfg.gi), "value": f.value})
		res.NonTrivial = true
		return
	}
	if err != nil {
		res.stat("probe.config-refused", 1)
		res.NonTrivial = sweep
		if !sweep {
			res.Discard = "configuration refused at creation"
		}
		return
	}
	res.stat("probe.config-accepted", 1)
	if cfg.ref.R > cfg.ref.M || cfg.ref.W > cfg.ref.M {
		res.stat("probe.config-accepted-with-limit-above-coresize", 1)
	}
	h.box = box
	h.model = ref.NewMars(cfg.ref)
	h.fold = make([]foldCell, cfg.ref.M)
	for i := range h.fold {
		h.fold[i] = foldCell{owner: -1}
	}
	M := cfg.ref.M
	big := M > 4096
	nw := 1 + tp.Draw("hos.nw", 4)
	for i := 0; i < nw && !h.dead; i++ {
		h.opAddHostile()
	}
	for i := 0; i < len(h.data) && !h.dead; i++ {
		h.opSpawn(i, genAnyField(tp, "hos.off", M))
	}
	nOps := 1 + tp.Draw("hos.ops", 25)
	if big {
		nOps = 1 + tp.Draw("hos.ops.big", 4)
	}
	for k := 0; k < nOps && !h.dead; k++ {
		switch op := tp.Draw("hos.op", 12); {
		case op < 8:
			h.opRunCycle()
		case op < 9:
			h.opRun()
		case op < 10:
			h.opReset()
			respawn := tp.Draw("hos.respawn.kind", 4) // all, all, a subset, none
			for i := 0; i < len(h.data) && !h.dead; i++ {
				if respawn == 3 || (respawn == 2 && tp.Draw("hos.respawn.pick", 2) == 0) {
					continue
				}
				h.opSpawn(i, genAnyField(tp, "hos.off", M))
			}
		case op < 11:
			h.opQueries()
		default:
			if len(h.data) > 0 {
				h.opSpawn(tp.Draw("hos.respawn", len(h.data)), genAnyField(tp, "hos.off", M))
			}
		}
		if tp.Draw("hos.othersim", 12) == 0 {
			h.opOtherSimulator()
		}
	}
	h.finishDecoded(&res, "hostile")
	res.Decoded["config"] = fmt.Sprint(cfg.gi)
	res.NonTrivial = true
	return
}

// hostile programs: all instruction forms, fields at the edges, self-modifying
// and mutually overwriting code, SPL storms, decrements on zero fields.
func (h *histState) opAddHostile() {
	M := h.cfg.ref.M
	tp := h.tp
	n := 1 + tp.Draw("hw.len", int(min(M, 8)))
	var w ref.Warrior
	style := tp.Draw("hw.style", 5)
	for i := 0; i < n; i++ {
		ins := genIns(tp, M)
		switch style {
		case 1: // SPL storm
			if tp.Draw("hw.spl", 2) == 0 {
				ins.Op = ref.SPL
			}
		case 2: // decrements through zero fields
			ins.Op = []ref.Op{ref.DJN, ref.MOV, ref.ADD, ref.SUB}[tp.Draw("hw.decop", 4)]
			ins.AMode = []ref.Mode{ref.APredec, ref.BPredec, ref.APostinc, ref.BPostinc}[tp.Draw("hw.decam", 4)]
			ins.BMode = []ref.Mode{ref.APredec, ref.BPredec, ref.APostinc, ref.BPostinc}[tp.Draw("hw.decbm", 4)]
			ins.A, ins.B = 0, 0
		case 3: // arithmetic at the edge of the field range
			ins.Op = []ref.Op{ref.MUL, ref.ADD, ref.SUB, ref.DIV, ref.MOD}[tp.Draw("hw.arop", 5)]
			ins.A, ins.B = M-1, M-1
		}
		w.Code = append(w.Code, ins)
	}
	w.Start = tp.Draw("hw.start", n)
	d := warToI(w)
	var hd gi.Warrior
	f, _ := safeCall(20000+50*int64(M), func() { hd, _ = h.box.sim.AddWarrior(&d) })
	h.log("AddWarrior(%s)", warStr(w))
	if f != nil {
		h.callFailed("AddWarrior", f)
		return
	}
	h.box.handles = append(h.box.handles, hd)
	h.data = append(h.data, w)
	h.caller = append(h.caller, &d)
	h.spawned = append(h.spawned, false)
	h.offsets = append(h.offsets, 0)
	h.model.AddWarrior(w)
	h.observe("AddWarrior", true)
}

func init() {
	real := []string{"simulator (sim.go simops.go queue.go warrior.go)", "bundled StateRecorder", "Reporter delivery"}
	stubs := []string{"time (tick clock per API call)"}
	assume := []string{"reference MARS and call-level state machine in ref/mars.go, written from the ICWS'94 draft (appendix A/B of DESIGN.md)",
		"states the property text leaves undefined are not compared exactly (DESIGN.md 8.1); after such a call the reference is re-synchronised from the observed state"}
	register(&PropSpec{ID: "C13", Engine: "battle", Fn: caseHistory, Quick: 3000000, Thorough: 100000000, Level: "exploration",
		Rule: "a case = configuration (tiny core, limits, process and cycle limits) + a history of 1..31 API calls (add, spawn with any index/offset, RunCycle, Run, Reset, queries, caller-data mutation) + optional reset-vs-fresh twin; after every call the full observable state is compared with the reference model (strict zone) or checked against invariants (lenient zone); non-trivial = at least one warrior added and one cycle/run call; distinct = distinct (configuration, call list)",
		Real: real, Stubs: stubs, Assume: assume})
	register(&PropSpec{ID: "C15", Engine: "battle", Fn: caseHistory, Quick: 3000000, Thorough: 100000000, Level: "exploration",
		Rule: "same histories as C13 with a recording listener and the bundled StateRecorder attached; per call the report stream is split into task windows and compared with the reference event stream (changed cells subset of reported cells subset of cells the instruction may touch; announced tasks; termination reports), the recorder is compared with the last-writer fold after every strictly-defined call; non-trivial and distinct as C13",
		Real: real, Stubs: stubs, Assume: assume})
	register(&PropSpec{ID: "C02", Engine: "battle", Fn: caseBattle, Quick: 800000, Thorough: 30000000, Level: "exploration",
		Rule: "a case = a well-formed battle (1..4 warriors of arbitrary code, arbitrary offsets, core 3..64 or 80/800/8000, process limit 1..4 or larger, cycle limit 1..40) run twice under two different driving schedules (Run(); RunCycle loop; steps+queries then Run()); every call is compared with the reference scheduler (core, queues, alive flags, counters, executed task sequence) and the two final states with each other; non-trivial = a cycle was executed; distinct = distinct (configuration, warriors, offsets, schedule)",
		Real: real, Stubs: stubs, Assume: assume})
	register(&PropSpec{ID: "C04", Engine: "battle", Fn: caseHostile, Quick: 600000, Thorough: 30000000, Level: "exploration",
		Rule: "a case = a configuration (one third drawn from the whole space 0..2^20 per field, the rest valid tiny cores) + hostile warriors (all instruction forms, edge fields, SPL storms, decrements through zero, arithmetic at M-1) + a history of spawns at any offset, cycles, runs, resets; creation must return an error or an instance; invariants (fields and queued PCs below core size, queue length within the process limit, cycle cap, living count, alive iff queue non-empty, no panic, bounded progress) are evaluated after every call; non-trivial = every case; distinct = distinct (configuration, call list)",
		Real: real, Stubs: stubs, Assume: assume})
}
