package h

import (
	"bytes"
	"fmt"
	"os"
	"sort"
	"testing"

	gp "vws/gmarsp"
	"vws/simrt"
)

func TestDebugGen(t *testing.T) {
	if os.Getenv("VERIF_ROLE") != "debuggen" {
		t.Skip()
	}
	errs := map[string]int{}
	ex := map[string]string{}
	ok := 0
	n := 3000
	for i := 0; i < n; i++ {
		tp := simrt.NewTape(7, uint64(i))
		cfg := genConfig(tp)
		tc := genProgram(tp, cfg, 85)
		_, err := gp.CompileWarrior(bytes.NewReader(tc.Text), cfg)
		if err == nil {
			ok++
			continue
		}
		msg := err.Error()
		if len(msg) > 50 {
			msg = msg[:50]
		}
		key := fmt.Sprint(tc.Notes) + " " + msg
		errs[key]++
		ex[key] = string(tc.Text)
	}
	fmt.Println("ok", ok, "of", n)
	keys := sortedKeys(errs)
	sort.Slice(keys, func(a, b int) bool { return errs[keys[a]] > errs[keys[b]] })
	for i, k := range keys {
		if i > 25 {
			break
		}
		fmt.Printf("%4d %s\n", errs[k], k)
		if i < 12 {
			fmt.Printf("      %q\n", ex[k])
		}
	}
}
