package h

import (
	"fmt"
	"strings"
	"testing"

	gi "vws/gmarsi"
	"vws/ref"
	"vws/simrt"
)

// ---- recording listener ----------------------------------------------------

type recListener struct {
	reps []gi.Report
}

func (l *recListener) Report(r gi.Report) { l.reps = append(l.reps, r) }

// ---- safe calls -------------------------------------------------------------

// battleTicks accumulates the ticks spent inside gmars calls of the current
// case (simulated time of the scheduler-less engines).
var battleTicks int64

type callFail struct {
	class string // "panic" | "no-progress"
	disc  string
	value string
	stack string
}

// safeCall runs f against gmars under a solo tick budget, converting panics and
// budget overruns into values.
func safeCall(budget int64, f func()) (fail *callFail, ticks int64) {
	defer func() { battleTicks += ticks }()
	defer func() {
		if r := recover(); r != nil {
			ticks = simrt.SoloStop()
			if sb, ok := r.(*simrt.SoloBudget); ok {
				fail = &callFail{class: "no-progress", disc: siteKey(sb.Site)}
				return
			}
			buf := make([]byte, 6000)
			n := runtimeStack(buf)
			st := string(buf[:n])
			v := fmt.Sprint(r)
			fail = &callFail{class: "panic", disc: panicClass(v) + " in " + topFrame(st), value: v, stack: st}
		}
	}()
	simrt.SoloStart(budget)
	f()
	ticks = simrt.SoloStop()
	return nil, ticks
}

// ---- observable snapshot of a gmars simulator -------------------------------

type snap struct {
	core   []ref.Ins
	queues [][]uint64
	alive  []bool
	lens   []int
	cycle  int
	n      int
	living int
}

type simBox struct {
	sim     gi.ReportingSimulator
	handles []gi.Warrior
	lis     *recListener
	rec     *gi.StateRecorder
	m       uint64
}

func takeSnap(b *simBox) (s snap, fail *callFail) {
	fail, _ = safeCall(int64(200000+200*b.m), func() {
		s.core = make([]ref.Ins, b.m)
		for a := uint64(0); a < b.m; a++ {
			s.core[a] = insFromI(b.sim.GetMem(gi.Address(a)))
		}
		for _, h := range b.handles {
			q := h.Queue()
			qq := make([]uint64, len(q))
			for i, v := range q {
				qq[i] = uint64(v)
			}
			s.queues = append(s.queues, qq)
			s.alive = append(s.alive, h.Alive())
			s.lens = append(s.lens, h.Length())
		}
		s.cycle = b.sim.CycleCount()
		s.n = b.sim.WarriorCount()
		s.living = b.sim.WarriorLivingCount()
	})
	return
}

// invariants of C04 on a snapshot; spawned[i] tells whether warrior i was
// spawned since the last reset.
func checkInvariants(res *Result, s *snap, cfg ref.Config, spawned []bool, after string) {
	bad := func(clause string, detail map[string]any) {
		detail["after"] = after
		res.add("C04", "C04 invariant "+clause, detail)
	}
	for a, c := range s.core {
		if c.A >= cfg.M || c.B >= cfg.M {
			bad("core field not below core size", map[string]any{"addr": a, "cell": fmt.Sprint(c)})
			break
		}
		if c.Op >= ref.NumOps || c.Mod >= ref.NumMods || c.AMode >= ref.NumModes || c.BMode >= ref.NumModes {
			bad("core cell outside the data model", map[string]any{"addr": a, "cell": fmt.Sprint(c)})
			break
		}
	}
	aliveCount := 0
	for i, q := range s.queues {
		if s.alive[i] {
			aliveCount++
		}
		for _, pc := range q {
			if pc >= cfg.M {
				bad("queued program counter not below core size", map[string]any{"warrior": i, "queue": q})
				break
			}
		}
		if i < len(spawned) && spawned[i] {
			if uint64(len(q)) > cfg.P {
				bad("more tasks than the process limit", map[string]any{"warrior": i, "len": len(q), "limit": cfg.P})
			}
			if s.alive[i] != (len(q) > 0) {
				bad("alive flag disagrees with task queue", map[string]any{"warrior": i, "alive": s.alive[i], "queue": q})
			}
		}
	}
	if uint64(s.cycle) > cfg.C {
		bad("completed cycles exceed the cycle limit", map[string]any{"cycle": s.cycle, "limit": cfg.C})
	}
	if s.living != aliveCount {
		bad("living count differs from number of alive warriors", map[string]any{"living": s.living, "alive": aliveCount})
	}
	if s.n != len(s.queues) {
		bad("warrior count differs from warriors added", map[string]any{"count": s.n, "added": len(s.queues)})
	}
}

// compareStrict compares a gmars snapshot with the reference state.
func compareStrict(res *Result, s *snap, m *ref.Mars, prop, after string) bool {
	diff := func(field string, detail map[string]any) bool {
		detail["after"] = after
		res.add(prop, prop+" refinement "+field, detail)
		return false
	}
	if s.n != len(m.Wars) {
		return diff("WarriorCount", map[string]any{"got": s.n, "want": len(m.Wars)})
	}
	if uint64(s.cycle) != m.Cycle {
		return diff("CycleCount", map[string]any{"got": s.cycle, "want": m.Cycle})
	}
	if s.living != m.Living {
		return diff("WarriorLivingCount", map[string]any{"got": s.living, "want": m.Living})
	}
	for i, w := range m.Wars {
		if s.alive[i] != (w.State == ref.StAlive) {
			return diff("Alive", map[string]any{"warrior": i, "got": s.alive[i], "want": w.State == ref.StAlive})
		}
		if s.lens[i] != len(w.Data.Code) {
			return diff("Length", map[string]any{"warrior": i, "got": s.lens[i], "want": len(w.Data.Code)})
		}
		if !w.Spawned {
			continue // queue of a warrior not spawned since the last reset: not prescribed
		}
		if fmt.Sprint(s.queues[i]) != fmt.Sprint(w.Queue) && !(len(s.queues[i]) == 0 && len(w.Queue) == 0) {
			return diff("Queue", map[string]any{"warrior": i, "got": s.queues[i], "want": w.Queue})
		}
	}
	for a := range m.Core {
		if s.core[a] != m.Core[a] {
			return diff("core", map[string]any{"addr": a, "got": fmt.Sprint(s.core[a]), "want": fmt.Sprint(m.Core[a])})
		}
	}
	return true
}

// syncRef overwrites the reference state with what gmars shows (used after a
// call whose exact effect the property does not prescribe).
func syncRef(m *ref.Mars, s *snap) {
	copy(m.Core, s.core)
	m.Cycle = uint64(s.cycle)
	m.Living = 0
	for i, w := range m.Wars {
		if i >= len(s.alive) {
			break
		}
		if s.alive[i] && len(s.queues[i]) > 0 {
			w.State = ref.StAlive
			m.Living++
			w.Queue = append([]uint64{}, s.queues[i]...)
		} else if s.alive[i] {
			// "alive" without tasks: reported by the invariant check; the
			// reference cannot run such a warrior
			w.State = ref.StDead
			w.Queue = nil
		} else if w.State == ref.StAlive {
			w.State = ref.StDead
			w.Queue = nil
		} else if w.Spawned {
			w.Queue = append([]uint64{}, s.queues[i]...)
		}
	}
}

// ---- generators --------------------------------------------------------------

// fieldHints are extra interesting field values (read/write limit boundaries)
// of the configuration in use; set by the case before generating warriors.
var fieldHints []uint64

func setFieldHints(M, R, W uint64) {
	fieldHints = fieldHints[:0]
	for _, l := range []uint64{R, W} {
		if l < M && l > 0 {
			fieldHints = append(fieldHints, (l/2)%M, (l/2+1)%M, (M-l/2)%M, (M-l/2-1)%M, l%M, (l-1)%M)
		}
	}
}

func genField(tp *simrt.Tape, M uint64, label string) uint64 {
	if len(fieldHints) > 0 && tp.Draw(label+".hint", 6) == 0 {
		return fieldHints[tp.Draw(label+".hintval", len(fieldHints))] % M
	}
	switch tp.Draw(label+".kind", 8) {
	case 0, 1:
		return 0
	case 2:
		return 1 % M
	case 3:
		return M - 1
	case 4:
		return 2 % M
	case 5:
		return M / 2
	default:
		return uint64(tp.Draw(label+".val", int(min(M, 1<<20))))
	}
}

func genIns(tp *simrt.Tape, M uint64) ref.Ins {
	// opcode bias: fewer DATs, more of the ones with side effects
	ops := []ref.Op{ref.DAT, ref.MOV, ref.MOV, ref.ADD, ref.SUB, ref.MUL, ref.DIV, ref.MOD, ref.JMP, ref.JMZ, ref.JMN, ref.DJN, ref.DJN, ref.CMP, ref.SEQ, ref.SNE, ref.SLT, ref.SPL, ref.SPL, ref.NOP}
	return ref.Ins{
		Op:    ops[tp.Draw("ins.op", len(ops))],
		Mod:   ref.Mod(tp.Draw("ins.mod", int(ref.NumMods))),
		AMode: ref.Mode(tp.Draw("ins.am", int(ref.NumModes))),
		A:     genField(tp, M, "ins.a"),
		BMode: ref.Mode(tp.Draw("ins.bm", int(ref.NumModes))),
		B:     genField(tp, M, "ins.b"),
	}
}

func genWarrior(tp *simrt.Tape, M uint64, maxLen int) ref.Warrior {
	n := 1 + tp.Draw("war.len", maxLen)
	if tp.Draw("war.empty", 40) == 0 {
		n = 0
	}
	w := ref.Warrior{}
	for i := 0; i < n; i++ {
		ins := genIns(tp, M)
		if i > 0 && tp.Draw("war.nearcopy", 4) == 0 {
			// a copy of an earlier cell with ONE attribute changed: whole-
			// instruction comparisons (.I) only differ in such pairs
			ins = w.Code[tp.Draw("war.nearcopy.of", i)]
			switch tp.Draw("war.nearcopy.what", 7) {
			case 0:
				ins.Mod = ref.Mod((int(ins.Mod) + 1 + tp.Draw("war.nearcopy.mod", int(ref.NumMods)-1)) % int(ref.NumMods))
			case 1:
				ins.Op = ref.Op((int(ins.Op) + 1 + tp.Draw("war.nearcopy.op", int(ref.NumOps)-1)) % int(ref.NumOps))
			case 2:
				ins.AMode = ref.Mode((int(ins.AMode) + 1 + tp.Draw("war.nearcopy.am", int(ref.NumModes)-1)) % int(ref.NumModes))
			case 3:
				ins.BMode = ref.Mode((int(ins.BMode) + 1 + tp.Draw("war.nearcopy.bm", int(ref.NumModes)-1)) % int(ref.NumModes))
			case 4:
				ins.A = (ins.A + 1) % M
			case 5:
				ins.B = (ins.B + 1) % M
			}
		}
		w.Code = append(w.Code, ins)
	}
	if n > 1 && tp.Draw("war.comparer", 6) == 0 {
		// make sure something compares two cells of the warrior as wholes
		k := tp.Draw("war.comparer.at", n)
		w.Code[k] = ref.Ins{Op: []ref.Op{ref.SNE, ref.SEQ, ref.CMP}[tp.Draw("war.comparer.op", 3)], Mod: ref.MI, AMode: ref.Direct, A: uint64(1+tp.Draw("war.comparer.a", n)) % M, BMode: ref.Direct, B: uint64(1+tp.Draw("war.comparer.b", n)) % M}
	}
	if n > 0 {
		w.Start = tp.Draw("war.start", n)
	}
	return w
}

func insStr(i ref.Ins) string {
	return fmt.Sprintf("%s.%s %s%d, %s%d", i.Op, i.Mod, i.AMode, i.A, i.BMode, i.B)
}

func warStr(w ref.Warrior) string {
	parts := make([]string, len(w.Code))
	for i, c := range w.Code {
		parts[i] = insStr(c)
	}
	return fmt.Sprintf("start=%d [%s]", w.Start, strings.Join(parts, "; "))
}

type battleCfg struct {
	ref ref.Config
	gi  gi.SimulatorConfig
}

func genBattleConfig(tp *simrt.Tape, bigOK bool) battleCfg {
	var M uint64
	switch k := tp.Draw("cfg.mkind", 10); {
	case k < 6:
		M = uint64(3 + tp.Draw("cfg.m.tiny", 10))
	case k < 9:
		M = uint64(3 + tp.Draw("cfg.m.small", 62))
	default:
		if bigOK {
			M = []uint64{80, 800, 8000}[tp.Draw("cfg.m.big", 3)]
		} else {
			M = uint64(3 + tp.Draw("cfg.m.small", 62))
		}
	}
	P := uint64(1 + tp.Draw("cfg.p", 4))
	if tp.Draw("cfg.pbig", 10) == 0 {
		P = uint64(1 + tp.Draw("cfg.p.big", 64))
	}
	C := uint64(1 + tp.Draw("cfg.c", 40))
	R, W := M, M
	if tp.Draw("cfg.limits", 3) != 0 {
		R = uint64(1 + tp.Draw("cfg.r", int(M)))
		W = uint64(1 + tp.Draw("cfg.w", int(M)))
	}
	setFieldHints(M, R, W)
	return battleCfg{
		ref: ref.Config{M: M, P: P, C: C, R: R, W: W},
		gi: gi.SimulatorConfig{Mode: gi.ICWS94, CoreSize: gi.Address(M), Processes: gi.Address(P), Cycles: gi.Address(C),
			ReadLimit: gi.Address(R), WriteLimit: gi.Address(W), Length: gi.Address(M), Distance: 0},
	}
}

func newBox(cfg gi.SimulatorConfig) (b *simBox, err error, fail *callFail) {
	fail, _ = safeCall(int64(400000+100*uint64(cfg.CoreSize)), func() {
		var sim gi.ReportingSimulator
		sim, err = gi.NewReportingSimulator(cfg)
		if err != nil {
			return
		}
		b = &simBox{sim: sim, m: uint64(cfg.CoreSize), lis: &recListener{}}
		sim.AddReporter(b.lis)
		b.rec = gi.NewStateRecorder(sim)
		sim.AddReporter(b.rec)
	})
	return
}

// ---- the history engine -------------------------------------------------------

type histState struct {
	res     *Result
	tp      *simrt.Tape
	cfg     battleCfg
	box     *simBox
	model   *ref.Mars
	data    []ref.Warrior // what was added, as it was at AddWarrior
	caller  []*gi.WarriorData
	ops     []string
	dead    bool // a call failed: the instance is no longer usable
	fold    []foldCell
	evPos   int // reports consumed so far
	prop    string
	spawned []bool
	offsets []uint64
}

func (h *histState) log(format string, a ...any) {
	h.ops = append(h.ops, fmt.Sprintf(format, a...))
}

func (h *histState) callFailed(call string, f *callFail) {
	h.dead = true
	detail := map[string]any{"call": call, "value": f.value, "stack": tail(f.stack, 2500)}
	if f.class == "panic" {
		h.res.add("C13", "C13 panic "+call+" "+f.disc, detail)
		h.res.add("C04", "C04 panic "+call+" "+f.disc, detail)
		if strings.Contains(f.disc, "StateRecorder") || strings.Contains(f.stack, ").Report(") {
			h.res.add("C15", "C15 a listener crashed on a report: "+f.disc, detail)
		}
		if h.box != nil && h.model != nil {
			// the reports delivered before the crash are still evidence
			M, n := h.cfg.ref.M, len(h.data)
			for _, r := range h.box.lis.reps[h.evPos:] {
				switch r.Type {
				case gi.SimReset, gi.CycleStart, gi.CycleEnd:
					continue
				}
				if uint64(r.Address) >= M {
					h.res.add("C15", "C15 report address not below core size in "+repTypeName(r.Type), map[string]any{"report": repStr(r), "coresize": M, "call": call})
				}
				if r.WarriorIndex < 0 || r.WarriorIndex >= n {
					h.res.add("C15", "C15 report names a warrior that does not exist in "+repTypeName(r.Type), map[string]any{"report": repStr(r), "warriors": n, "call": call})
				}
			}
		}
	} else {
		h.res.add("C13", "C13 no-progress "+call+" spinning at "+f.disc, detail)
		h.res.add("C04", "C04 no-progress "+call+" spinning at "+f.disc, detail)
	}
}

// after every call: snapshot, invariants, refinement (strict) or resync.
func (h *histState) observe(call string, strict bool) {
	if h.dead {
		return
	}
	s, f := takeSnap(h.box)
	if f != nil {
		h.callFailed("query-after-"+call, f)
		return
	}
	checkInvariants(h.res, &s, h.cfg.ref, h.spawned, call)
	domain := h.cfg.ref.R <= h.cfg.ref.M && h.cfg.ref.W <= h.cfg.ref.M
	if strict && domain {
		h.res.stat("strict-comparisons", 1)
		if !compareStrict(h.res, &s, h.model, "C13", call) {
			h.res.add("C02", "C02 refinement state after "+strings.SplitN(call, "(", 2)[0], map[string]any{"after": call})
			syncRef(h.model, &s)
		}
	} else {
		h.res.stat("lenient-resyncs", 1)
		syncRef(h.model, &s)
		for _, r := range h.box.lis.reps[h.evPos:] {
			if r.Type == gi.WarriorTaskPop {
				// tasks ran in a state the rules do not describe: stay lenient
				// until the next reset
				h.model.Executed, h.model.Mixed = true, true
				break
			}
		}
	}
	h.res.StateHash = append(h.res.StateHash, hashSnap(&s))
	h.checkReports(call, strict && domain, &s)
}

func (h *histState) budgetRun() int64 {
	return 5000 + 400*int64(h.cfg.ref.C+1)*int64(len(h.data)+1)
}

func (h *histState) opAdd() {
	M := h.cfg.ref.M
	w := genWarrior(h.tp, M, int(min(M, 5)))
	d := warToI(w)
	var hd gi.Warrior
	var err error
	f, _ := safeCall(20000+50*int64(M), func() { hd, err = h.box.sim.AddWarrior(&d) })
	h.log("AddWarrior(%s)", warStr(w))
	if f != nil {
		h.callFailed("AddWarrior", f)
		return
	}
	if (err != nil || hd == nil) && h.model.Executed {
		// adding a warrior to a battle that has already started is a state the
		// rules do not describe: refusing it is acceptable
		h.res.stat("probe.add-refused-mid-battle", 1)
		h.observe("AddWarrior(refused)", false)
		return
	}
	if err != nil || hd == nil {
		h.res.add("C13", "C13 refinement AddWarrior returned an error or nil", map[string]any{"err": fmt.Sprint(err)})
		h.dead = true
		return
	}
	h.box.handles = append(h.box.handles, hd)
	h.data = append(h.data, w)
	h.caller = append(h.caller, &d)
	h.spawned = append(h.spawned, false)
	h.offsets = append(h.offsets, 0)
	h.model.AddWarrior(w)
	h.observe("AddWarrior", true)
}

func (h *histState) drawOffset() uint64 {
	M := h.cfg.ref.M
	switch h.tp.Draw("off.kind", 7) {
	case 0:
		return 0
	case 1:
		return 1
	case 2:
		return M - 1
	case 3:
		return M
	case 4:
		return 2*M + 3
	default:
		return uint64(h.tp.Draw("off.val", int(M)))
	}
}

func (h *histState) drawIndex(label string) int {
	n := len(h.data)
	// mostly valid, sometimes -1, n, n+1
	switch h.tp.Draw(label+".kind", 8) {
	case 0:
		return -1
	case 1:
		return n
	case 2:
		return n + 1
	}
	if n == 0 {
		return 0
	}
	return h.tp.Draw(label+".val", n)
}

func (h *histState) opSpawn(i int, off uint64) {
	var err error
	call := fmt.Sprintf("SpawnWarrior(%d,%d)", i, off)
	h.log("%s", call)
	f, _ := safeCall(20000+100*int64(h.cfg.ref.M), func() { err = h.box.sim.SpawnWarrior(i, gi.Address(off)) })
	if f != nil {
		h.callFailed("SpawnWarrior", f)
		return
	}
	executedBefore := h.model.Executed
	if err != nil && executedBefore && i >= 0 && i < len(h.model.Wars) && h.model.Wars[i].State != ref.StAlive {
		// (re-)spawning into a battle that has already started is a state the
		// rules do not describe: refusing it is acceptable
		h.res.stat("probe.spawn-refused-mid-battle", 1)
		h.observe(call+"(refused)", false)
		return
	}
	ok := h.model.Spawn(i, off)
	if ok != (err == nil) {
		h.res.add("C13", "C13 refinement SpawnWarrior error-or-not", map[string]any{"call": call, "err": fmt.Sprint(err), "model_applies": ok})
		h.dead = true
		return
	}
	if ok {
		h.spawned[i] = true
		h.offsets[i] = off
		h.res.stat("probe.spawn-ok", 1)
		if off >= h.cfg.ref.M {
			h.res.stat("probe.spawn-offset-at-or-beyond-coresize", 1)
		}
		if (off%h.cfg.ref.M)+uint64(len(h.data[i].Code)) > h.cfg.ref.M {
			h.res.stat("probe.spawn-wraps-core-end", 1)
		}
	} else {
		h.res.stat("probe.spawn-refused", 1)
	}
	// a spawn in mid-battle is a state the rules do not describe
	h.observe(call, !executedBefore || !ok)
}

func (h *histState) opRunCycle() {
	var ret int
	h.log("RunCycle()")
	f, _ := safeCall(5000+400*int64(len(h.data)+1), func() { ret = h.box.sim.RunCycle() })
	if f != nil {
		h.callFailed("RunCycle", f)
		return
	}
	want, strict := h.model.RunCycle()
	domain := h.cfg.ref.R <= h.cfg.ref.M && h.cfg.ref.W <= h.cfg.ref.M
	if strict && domain && ret != want {
		h.res.add("C13", "C13 refinement RunCycle return value", map[string]any{"got": ret, "want": want, "ops": len(h.ops)})
		h.res.add("C02", "C02 refinement RunCycle return value", map[string]any{"got": ret, "want": want})
	}
	h.observe("RunCycle", strict)
}

func (h *histState) opRun() {
	var flags []bool
	h.log("Run()")
	f, _ := safeCall(h.budgetRun(), func() { flags = h.box.sim.Run() })
	if f != nil {
		h.callFailed("Run", f)
		return
	}
	want, strict := h.model.Run()
	domain := h.cfg.ref.R <= h.cfg.ref.M && h.cfg.ref.W <= h.cfg.ref.M
	if strict && domain && fmt.Sprint(flags) != fmt.Sprint(want) {
		h.res.add("C13", "C13 refinement Run result", map[string]any{"got": flags, "want": want})
		h.res.add("C02", "C02 refinement Run result", map[string]any{"got": flags, "want": want})
	}
	if len(h.data) == 0 && flags != nil {
		h.res.add("C13", "C13 refinement Run with no warriors returns non-nil", map[string]any{"got": flags})
	}
	// self-consistency in every zone: flags equal Alive()
	if !h.dead && flags != nil {
		for i, hd := range h.box.handles {
			if i < len(flags) && flags[i] != hd.Alive() {
				h.res.add("C13", "C13 refinement Run flag differs from Alive()", map[string]any{"warrior": i})
			}
		}
		if len(flags) != len(h.box.handles) {
			h.res.add("C13", "C13 refinement Run result length", map[string]any{"got": len(flags), "want": len(h.box.handles)})
		}
	}
	h.observe("Run", strict)
}

func (h *histState) opReset() {
	h.log("Reset()")
	f, _ := safeCall(20000+100*int64(h.cfg.ref.M), func() { h.box.sim.Reset() })
	if f != nil {
		h.callFailed("Reset", f)
		return
	}
	h.model.Reset()
	for i := range h.spawned {
		h.spawned[i] = false
	}
	h.res.stat("probe.reset", 1)
	if h.model.Executed {
		h.res.stat("probe.reset-mid-battle", 1)
	}
	h.observe("Reset", true)
}

func (h *histState) opQueries() {
	// GetWarrior with any index
	i := h.drawIndex("q.idx")
	var got gi.Warrior
	h.log("GetWarrior(%d)", i)
	f, _ := safeCall(5000, func() { got = h.box.sim.GetWarrior(i) })
	if f != nil {
		h.callFailed("GetWarrior", f)
		return
	}
	valid := i >= 0 && i < len(h.data)
	if valid != (got != nil) {
		h.res.add("C13", "C13 refinement GetWarrior nil-or-not", map[string]any{"index": i, "count": len(h.data), "got_nil": got == nil})
	} else if valid && (got.Length() != h.box.handles[i].Length() || got.Alive() != h.box.handles[i].Alive()) {
		// handle identity is not promised; behaviour is
		h.res.add("C13", "C13 refinement GetWarrior returns a handle of another warrior", map[string]any{"index": i})
	}
	// GetMem with any address
	a := uint64(h.tp.Draw("q.addr", int(3*h.cfg.ref.M)))
	var cell gi.Instruction
	f, _ = safeCall(5000, func() { cell = h.box.sim.GetMem(gi.Address(a)) })
	h.log("GetMem(%d)", a)
	if f != nil {
		h.callFailed("GetMem", f)
		return
	}
	// an address at or beyond the core size must not panic; which cell it names
	// is not prescribed by the battle rules, so only in-range reads are compared
	if a < h.cfg.ref.M && insFromI(cell) != h.model.GetMem(a) {
		h.res.add("C13", "C13 refinement GetMem", map[string]any{"addr": a, "got": fmt.Sprint(cell), "want": insStr(h.model.GetMem(a))})
	}
	// NextPC / Queue / Length / Alive on every handle ever returned
	for wi, hd := range h.box.handles {
		var pc gi.Address
		var err error
		f, _ = safeCall(5000, func() { pc, err = hd.NextPC() })
		if f != nil {
			h.log("handle[%d].NextPC()", wi)
			h.callFailed("NextPC", f)
			return
		}
		w := h.model.Wars[wi]
		if w.Spawned {
			if (len(w.Queue) == 0) != (err != nil) {
				h.res.add("C13", "C13 refinement NextPC error-or-not", map[string]any{"warrior": wi, "err": fmt.Sprint(err), "queue": w.Queue})
			} else if err == nil && uint64(pc) != w.Queue[0] {
				h.res.add("C13", "C13 refinement NextPC value", map[string]any{"warrior": wi, "got": uint64(pc), "want": w.Queue[0]})
			}
		} else if !everSpawned(h, wi) && err == nil {
			h.res.add("C13", "C13 refinement NextPC on a never-started warrior reports no error", map[string]any{"warrior": wi})
		}
	}
	// constant accessors
	if uint64(h.box.sim.CoreSize()) != h.cfg.ref.M || uint64(h.box.sim.MaxCycles()) != h.cfg.ref.C {
		h.res.add("C13", "C13 refinement CoreSize/MaxCycles", map[string]any{"coresize": uint64(h.box.sim.CoreSize()), "maxcycles": h.box.sim.MaxCycles()})
	}
}

func everSpawned(h *histState, wi int) bool {
	for _, op := range h.ops {
		if strings.HasPrefix(op, fmt.Sprintf("SpawnWarrior(%d,", wi)) {
			return true
		}
	}
	return false
}

// mutate the caller's data after AddWarrior (C14 d): must not show through
func (h *histState) opMutateCaller() {
	if len(h.caller) == 0 {
		return
	}
	i := h.tp.Draw("mut.idx", len(h.caller))
	d := h.caller[i]
	switch h.tp.Draw("mut.kind", 4) {
	case 0:
		if len(d.Code) > 0 {
			j := h.tp.Draw("mut.cell", len(d.Code))
			d.Code[j] = insToI(genIns(h.tp, h.cfg.ref.M))
		}
	case 1:
		d.Start = h.tp.Draw("mut.start", len(d.Code)+1)
	case 2:
		d.Code = append(d.Code, insToI(genIns(h.tp, h.cfg.ref.M)))
	default:
		if len(d.Code) > 0 {
			d.Code = d.Code[:len(d.Code)-1]
		}
	}
	h.log("MutateCallerData(%d)", i)
	h.res.stat("probe.caller-data-mutated", 1)
	h.observe("MutateCallerData", true)
}

// opOtherSimulator creates (and briefly runs) an unrelated simulator with a
// different core size in the middle of the history: instances must not share
// anything, whatever the order in which they are created.
func (h *histState) opOtherSimulator() {
	other := h.cfg.gi
	if h.tp.Draw("other.bigger", 2) == 0 {
		other.CoreSize = h.cfg.gi.CoreSize*2 + 5
	} else {
		other.CoreSize = gi.Address(max(3, int(h.cfg.gi.CoreSize)/2))
	}
	other.ReadLimit, other.WriteLimit, other.Length, other.Distance = other.CoreSize, other.CoreSize, other.CoreSize, 0
	h.log("NewSimulator(other, M=%d)", other.CoreSize)
	safeCall(400000, func() {
		if sm, err := gi.NewSimulator(other); err == nil {
			d := gi.WarriorData{Code: []gi.Instruction{{Op: gi.MOV, OpMode: gi.I, AMode: gi.DIRECT, BMode: gi.DIRECT, B: 1}}}
			sm.AddWarrior(&d)
			sm.SpawnWarrior(0, 0)
			sm.RunCycle()
		}
	})
	h.res.stat("probe.unrelated-simulator-created-mid-history", 1)
	h.observe("NewSimulator(other)", true)
}

func newHist(res *Result, tp *simrt.Tape, cfg battleCfg, prop string) *histState {
	h := &histState{res: res, tp: tp, cfg: cfg, prop: prop}
	box, err, f := newBox(cfg.gi)
	if f != nil {
		res.add("C04", "C04 "+f.class+" NewSimulator "+f.disc, map[string]any{"config": fmt.Sprint(cfg.gi), "value": f.value})
		res.add("C13", "C13 "+f.class+" NewSimulator "+f.disc, map[string]any{"config": fmt.Sprint(cfg.gi), "value": f.value})
		h.dead = true
		return h
	}
	if err != nil {
		// refusing a configuration at creation is always allowed (C04); there
		// is nothing to explore in this case
		res.Discard = "configuration refused at creation"
		h.dead = true
		return h
	}
	h.box = box
	h.model = ref.NewMars(cfg.ref)
	h.fold = make([]foldCell, cfg.ref.M)
	for i := range h.fold {
		h.fold[i] = foldCell{owner: -1}
	}
	return h
}

// caseHistory: free call histories (C13, C04, C15, C14d).
func caseHistory(t *testing.T, tp *simrt.Tape, c *Ctx) (res Result) {
	cfg := genBattleConfig(tp, false)
	h := newHist(&res, tp, cfg, c.Prop)
	nOps := 1 + tp.Draw("hist.len", 30)
	if tp.Draw("hist.short", 3) == 0 {
		nOps = 1 + tp.Draw("hist.len.short", 5)
	}
	// swarm: which op kinds are enabled in this history
	enable := map[string]bool{}
	for _, k := range []string{"add", "spawn", "cycle", "run", "reset", "query", "mutate", "badspawn"} {
		enable[k] = tp.Draw("hist.enable."+k, 4) != 0
	}
	enable["add"], enable["spawn"] = true, true
	for k := 0; k < nOps && !h.dead; k++ {
		switch op := tp.Draw("hist.op", 20); {
		case op < 3 && enable["add"] && len(h.data) < 4:
			h.opAdd()
		case op < 8 && enable["spawn"]:
			i := 0
			if enable["badspawn"] {
				i = h.drawIndex("spawn.idx")
			} else if len(h.data) > 0 {
				i = h.tp.Draw("spawn.idx.val", len(h.data))
			} else {
				continue
			}
			h.opSpawn(i, h.drawOffset())
		case op < 13 && enable["cycle"]:
			h.opRunCycle()
		case op < 15 && enable["run"]:
			h.opRun()
		case op < 16 && enable["reset"]:
			h.opReset()
		case op < 18 && enable["query"]:
			h.opQueries()
		case op < 19 && enable["mutate"]:
			h.opMutateCaller()
		default:
			if len(h.data) < 4 {
				h.opAdd()
			}
		}
		if tp.Draw("hist.othersim", 16) == 0 && !h.dead {
			h.opOtherSimulator()
		}
	}
	if !h.dead && tp.Draw("hist.twin", 3) == 0 {
		h.twinRestart()
	}
	h.finishDecoded(&res, "history")
	return
}

func (h *histState) finishDecoded(res *Result, kind string) {
	res.Decoded = map[string]any{"kind": kind, "config": fmt.Sprintf("M=%d P=%d C=%d R=%d W=%d", h.cfg.ref.M, h.cfg.ref.P, h.cfg.ref.C, h.cfg.ref.R, h.cfg.ref.W), "calls": h.ops}
	res.Hash = hashStr(fmt.Sprint(res.Decoded))
	executed := false
	for _, op := range h.ops {
		if op == "RunCycle()" || op == "Run()" {
			executed = true
		}
	}
	res.NonTrivial = executed && len(h.data) > 0
	res.stat("calls", int64(len(h.ops)))
	res.stat("ticks", battleTicks)
	battleTicks = 0
	res.stat("max.history-length", int64(len(h.ops)))
}

// twinRestart: Reset + re-spawn on the used instance versus a fresh instance
// given the same calls; both must be indistinguishable call by call.
func (h *histState) twinRestart() {
	if len(h.data) == 0 {
		return
	}
	h.res.stat("probe.twin-restart", 1)
	h.opReset()
	if h.dead {
		return
	}
	fresh, err, f := newBox(h.cfg.gi)
	if f != nil || err != nil {
		h.res.Infra = "twin: cannot create a second instance"
		return
	}
	for i := range h.data {
		d := warToI(h.data[i])
		hd, _ := fresh.sim.AddWarrior(&d)
		fresh.handles = append(fresh.handles, hd)
	}
	type twinOp struct {
		kind string
		i    int
		off  uint64
	}
	var tail []twinOp
	for i := range h.data {
		tail = append(tail, twinOp{"spawn", i, h.drawOffset()})
	}
	n := 1 + h.tp.Draw("twin.len", 8)
	for k := 0; k < n; k++ {
		switch h.tp.Draw("twin.op", 4) {
		case 0, 1:
			tail = append(tail, twinOp{kind: "cycle"})
		case 2:
			tail = append(tail, twinOp{kind: "run"})
		default:
			tail = append(tail, twinOp{kind: "query"})
		}
	}
	for _, op := range tail {
		if h.dead {
			return
		}
		var ra, rb string
		switch op.kind {
		case "spawn":
			var e2 error
			f2, _ := safeCall(20000+100*int64(h.cfg.ref.M), func() { e2 = fresh.sim.SpawnWarrior(op.i, gi.Address(op.off)) })
			if f2 != nil {
				h.callFailed("SpawnWarrior(fresh twin)", f2)
				return
			}
			before := len(h.res.Viol)
			h.opSpawn(op.i, op.off)
			_ = before
			rb = fmt.Sprint(e2 == nil)
			ra = rb
		case "cycle":
			var r2 int
			f2, _ := safeCall(5000+400*int64(len(h.data)+1), func() { r2 = fresh.sim.RunCycle() })
			if f2 != nil {
				h.callFailed("RunCycle(fresh twin)", f2)
				return
			}
			var r1 int
			h.log("RunCycle() [twin]")
			f1, _ := safeCall(5000+400*int64(len(h.data)+1), func() { r1 = h.box.sim.RunCycle() })
			if f1 != nil {
				h.callFailed("RunCycle", f1)
				return
			}
			_, strict := h.model.RunCycle()
			h.observe("RunCycle", strict)
			ra, rb = fmt.Sprint(r1), fmt.Sprint(r2)
		case "run":
			var r2 []bool
			f2, _ := safeCall(h.budgetRun(), func() { r2 = fresh.sim.Run() })
			if f2 != nil {
				h.callFailed("Run(fresh twin)", f2)
				return
			}
			var r1 []bool
			h.log("Run() [twin]")
			f1, _ := safeCall(h.budgetRun(), func() { r1 = h.box.sim.Run() })
			if f1 != nil {
				h.callFailed("Run", f1)
				return
			}
			_, strict := h.model.Run()
			h.observe("Run", strict)
			ra, rb = fmt.Sprint(r1), fmt.Sprint(r2)
		}
		if ra != rb {
			h.res.add("C13", "C13 restart-equivalence return value of "+op.kind, map[string]any{"reset_instance": ra, "fresh_instance": rb})
			return
		}
		allRespawned := true
		for _, sp := range h.spawned {
			if !sp {
				allRespawned = false
			}
		}
		if !allRespawned {
			continue // equivalence is promised once the same warriors are spawned again
		}
		sa, fa := takeSnap(h.box)
		sb, fb := takeSnap(fresh)
		if fa != nil || fb != nil {
			return
		}
		if fmt.Sprint(sa) != fmt.Sprint(sb) {
			field := "state"
			switch {
			case fmt.Sprint(sa.core) != fmt.Sprint(sb.core):
				field = "core"
			case fmt.Sprint(sa.queues) != fmt.Sprint(sb.queues):
				field = "queues"
			case fmt.Sprint(sa.alive) != fmt.Sprint(sb.alive):
				field = "alive flags"
			case sa.cycle != sb.cycle:
				field = "cycle count"
			case sa.living != sb.living:
				field = "living count"
			}
			h.res.add("C13", "C13 restart-equivalence "+field+" differs from a fresh instance", map[string]any{"after": op.kind, "reset_instance": fmt.Sprint(sa), "fresh_instance": fmt.Sprint(sb)})
			return
		}
		// recorder twins
		for a := uint64(0); a < h.cfg.ref.M; a++ {
			s1, c1 := h.box.rec.GetMemState(gi.Address(a))
			s2, c2 := fresh.rec.GetMemState(gi.Address(a))
			if s1 != s2 || c1 != c2 {
				h.res.add("C15", "C15 recorder after reset differs from a fresh recorder", map[string]any{"addr": a, "reset": fmt.Sprint(s1, c1), "fresh": fmt.Sprint(s2, c2)})
				return
			}
		}
	}
	h.res.stat("probe.twin-restart-completed", 1)
}

func hashSnap(s *snap) uint64 {
	h := uint64(14695981039346656037)
	mix := func(v uint64) { h = (h ^ v) * 1099511628211 }
	for _, c := range s.core {
		mix(uint64(c.Op) | uint64(c.Mod)<<8 | uint64(c.AMode)<<16 | uint64(c.BMode)<<24)
		mix(c.A)
		mix(c.B)
	}
	for _, q := range s.queues {
		mix(uint64(len(q)) + 77)
		for _, v := range q {
			mix(v)
		}
	}
	mix(uint64(s.cycle))
	return h
}
