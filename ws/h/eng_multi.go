package h

import (
	"fmt"
	"os"
	"strings"
	"sync"
	"testing"

	gi "vws/gmarsi"
	gp "vws/gmarsp"
	"vws/ref"
	"vws/simrt"
)

// ---- jobs ----------------------------------------------------------------------

type jobSpec struct {
	kind   string // "asm" | "load" | "battle"
	text   []byte
	cfg    gi.SimulatorConfig
	plan   simrt.ReaderPlan
	shared []*gi.WarriorData // battle: shared warrior data (read-only for the job)
	offs   []uint64
	steps  int // battle: cycles stepped before Run
	desc   string
	probe  bool // asm: the text names the four predefined constants; the fields are known from cfg alone
}

type jobResult struct {
	done     bool
	err      string
	out      string
	probeBad string
}

// runJob executes a job; yield is called between API calls of battle jobs so
// that the scheduler can interleave other jobs there.
func runJob(j *jobSpec, tp *simrt.Tape, yield func()) (r jobResult) {
	switch j.kind {
	case "asm":
		w, err := gi.CompileWarrior(simrt.NewReader(j.text, j.plan, tp), j.cfg)
		r.err = fmt.Sprint(err != nil)
		r.out = warIString(w)
		if j.probe && err == nil && len(w.Code) == 2 {
			got := [4]uint64{uint64(w.Code[0].A), uint64(w.Code[0].B), uint64(w.Code[1].A), uint64(w.Code[1].B)}
			if got != probeWant(j.cfg) {
				r.probeBad = fmt.Sprint("fields ", got, " for a configuration that denotes ", probeWant(j.cfg))
			}
		}
	case "load":
		w, err := gi.ParseLoadFile(simrt.NewReader(j.text, j.plan, tp), j.cfg)
		r.err = fmt.Sprint(err != nil)
		r.out = warIString(w)
	case "battle":
		sim, err := gi.NewReportingSimulator(j.cfg)
		if err != nil {
			r.err = "config"
			break
		}
		lis := &recListener{}
		sim.AddReporter(lis)
		var hs []gi.Warrior
		for i, d := range j.shared {
			yield()
			h, _ := sim.AddWarrior(d)
			hs = append(hs, h)
			yield()
			sim.SpawnWarrior(i, gi.Address(j.offs[i]))
		}
		for k := 0; k < j.steps; k++ {
			yield()
			sim.RunCycle()
		}
		yield()
		flags := sim.Run()
		var sb strings.Builder
		fmt.Fprint(&sb, flags, sim.CycleCount(), sim.WarriorLivingCount())
		for _, h := range hs {
			fmt.Fprint(&sb, h.Queue(), h.Alive())
		}
		m := uint64(sim.CoreSize())
		for a := uint64(0); a < m; a++ {
			fmt.Fprint(&sb, sim.GetMem(gi.Address(a)))
		}
		fmt.Fprint(&sb, len(lis.reps))
		r.out = sb.String()
	}
	r.done = true
	return
}

func genJobs(tp *simrt.Tape, res *Result) []*jobSpec {
	n := 2 + tp.Draw("mj.n", 5)
	// small pools of shared inputs
	var texts [][]byte
	var cfgs []gp.SimulatorConfig
	for i := 0; i < 2; i++ {
		c := genConfig(tp)
		cfgs = append(cfgs, c)
		tc := genAsmText(tp, c, asmMix{program: 60, mutated: 15, soup: 5, raw: 0, corpus: 20, legalPct: 90})
		texts = append(texts, tc.Text)
	}
	bc := genBattleConfig(tp, false)
	var shared []*gi.WarriorData
	for i := 0; i < 2; i++ {
		d := warToI(genWarrior(tp, bc.ref.M, int(min(bc.ref.M, 5))))
		shared = append(shared, &d)
	}
	lw := genLoadWarrior(tp, 8000, false, 5)
	loadText := []byte(strings.Join(ref.Canon(lw, 8000, false, nil), "\n") + "\n")
	var jobs []*jobSpec
	for i := 0; i < n; i++ {
		switch k := tp.Draw("mj.kind", 6); {
		case k < 3:
			ti := tp.Draw("mj.text", len(texts))
			jobs = append(jobs, &jobSpec{kind: "asm", text: texts[ti], cfg: cfgI(cfgs[ti]), plan: genLegalPlan(tp, len(texts[ti])), desc: fmt.Sprintf("asm text#%d", ti)})
			res.stat("jobs.asm", 1)
		case k < 5:
			nw := 1 + tp.Draw("mj.nw", 2)
			j := &jobSpec{kind: "battle", cfg: bc.gi, steps: tp.Draw("mj.steps", 6), desc: "battle"}
			for w := 0; w < nw; w++ {
				j.shared = append(j.shared, shared[tp.Draw("mj.shared", len(shared))])
				j.offs = append(j.offs, uint64(tp.Draw("mj.off", int(bc.ref.M))))
			}
			jobs = append(jobs, j)
			res.stat("jobs.battle", 1)
		default:
			jobs = append(jobs, &jobSpec{kind: "load", text: loadText, cfg: cfgI(gp.ConfigNOP94), plan: genLegalPlan(tp, len(loadText)), desc: "load"})
			res.stat("jobs.load", 1)
		}
	}
	if tp.Draw("mj.sibling-probe", 3) == 0 {
		// two assemblies of one text that names the predefined constants, under
		// configurations that differ in exactly one value: anything remembered
		// from one (by this case or an earlier one) shows in the other
		c0 := cfgs[0]
		if c0.Length < 2 && c0.CoreSize >= 2 {
			c0.Length, c0.Distance = 2, 0
		}
		c1 := c0
		switch tp.Draw("mj.sibling.field", 4) {
		case 0:
			room := int(c0.CoreSize) - int(c0.Length)
			c1.Distance = gp.Address((int(c0.Distance) + 1 + tp.Draw("mj.sibling.dist", max(room, 1))) % (room + 1))
		case 1:
			c1.Processes = gp.Address(1 + (int(c0.Processes)+tp.Draw("mj.sibling.procs", 9000))%9000)
		case 2:
			if c0.Length > 2 {
				c1.Length = gp.Address(2 + tp.Draw("mj.sibling.len", int(c0.Length)-2))
			}
		case 3:
			c1.Cycles = c0.Cycles + 1
		}
		probeText := []byte("dat #CORESIZE-1, #MAXLENGTH\ndat #MAXPROCESSES, #MINDISTANCE\n")
		for _, c := range []gp.SimulatorConfig{c0, c1} {
			jobs = append(jobs, &jobSpec{kind: "asm", text: probeText, cfg: cfgI(c), plan: genLegalPlan(tp, len(probeText)), probe: true,
				desc: fmt.Sprintf("asm predefined-constants probe %v", cfgMap(c))})
		}
		res.stat("probe.sibling-config-probe", 1)
	}
	return jobs
}

// probeWant is what the probe text denotes under cfg (the predefined names
// carry the configuration's values, reduced into the core).
func probeWant(c gi.SimulatorConfig) [4]uint64 {
	m := uint64(c.CoreSize)
	return [4]uint64{(m - 1) % m, uint64(c.Length) % m, uint64(c.Processes) % m, uint64(c.Distance) % m}
}

func sharedSnapshot(jobs []*jobSpec) string {
	var sb strings.Builder
	for _, j := range jobs {
		for _, d := range j.shared {
			fmt.Fprint(&sb, *d)
		}
		sb.Write(j.text)
	}
	return sb.String()
}

// caseMultiJob: several jobs as tasks of one scheduler; each job's result must
// equal its sequential result under the explored interleaving (C14 b), and the
// race detector (in the -race build) must stay silent (C14 c).
func caseMultiJob(t *testing.T, tp *simrt.Tape, res *Result) {
	jobs := genJobs(tp, res)
	before := sharedSnapshot(jobs)
	seq := make([]jobResult, len(jobs))
	runSequential := func() bool {
		// sequential results: each job alone, baseline schedule
		for i, j := range jobs {
			zt := simrt.ReplayTape(nil)
			plain := *j
			plain.plan = simrt.ReaderPlan{ErrAt: -1} // whole text in one read
			out := simrt.Run(t, simrt.Config{Tape: zt, MaxSteps: asmMaxSteps, MaxTicks: asmMaxTicks}, func() {
				seq[i] = runJob(&plain, zt, func() {})
			})
			if out.Budget || len(out.Panics) > 0 || !out.MainDone {
				// such cases belong to C05/C13; not a C14 subject
				res.Discard = "job does not complete on its own (subject of C05/C13)"
				return false
			}
		}
		return true
	}
	// which comes first is a choice: a cold concurrent start meets lazily
	// initialised shared state that a sequential warm-up would hide
	concurrentFirst := tp.Draw("mj.concurrent-first", 2) == 0
	if !concurrentFirst && !runSequential() {
		return
	}
	// concurrent: all jobs under one scheduler
	conc := make([]jobResult, len(jobs))
	fns := make([]func(), len(jobs))
	for i, j := range jobs {
		fns[i] = func() {
			conc[i] = runJob(j, tp, func() { simrt.Yield(0, simrt.KAPI) })
		}
	}
	out := simrt.Run(t, simrt.Config{Tape: tp, MaxSteps: asmMaxSteps * 4, MaxTicks: asmMaxTicks * 4}, fns[0], fns[1:]...)
	if concurrentFirst {
		res.stat("probe.concurrent-before-sequential", 1)
		if !runSequential() {
			return
		}
	}
	res.stat("ticks", out.Ticks)
	res.stat("sched.steps", int64(out.Steps))
	res.stat("max.tasks", int64(out.Tasks))
	res.SchedHash = schedHash(out.Trace)
	res.Orders = append(res.Orders, out.Orders...)
	for _, p := range out.Panics {
		res.add("C14", "C14 panic under concurrent jobs "+panicClass(p.Value)+" in "+topFrame(p.Stack), map[string]any{"task": p.Name, "value": p.Value, "stack": tail(p.Stack, 2500)})
	}
	if out.Budget || !out.MainDone {
		res.add("C14", "C14 jobs that complete alone do not complete together", map[string]any{"budget": out.Budget, "blocked": out.Deadlock})
		return
	}
	for i := range jobs {
		if conc[i] != seq[i] {
			res.add("C14", "C14 interference "+jobs[i].kind+" job result differs from its sequential result", map[string]any{"job": jobs[i].desc, "sequential": tail(seq[i].out, 600), "concurrent": tail(conc[i].out, 600)})
		}
	}
	for i := range jobs {
		for _, r := range []jobResult{seq[i], conc[i]} {
			if r.probeBad != "" {
				res.add("C14", "C14 isolation assembly under one configuration shows values of another configuration", map[string]any{"job": jobs[i].desc, "got": r.probeBad})
				break
			}
		}
	}
	if sharedSnapshot(jobs) != before {
		res.add("C14", "C14 isolation shared input changed by a job", map[string]any{})
	}
	descs := make([]string, len(jobs))
	for i, j := range jobs {
		descs[i] = j.desc
	}
	res.Decoded = map[string]any{"kind": "multi-job", "jobs": descs, "steps": out.Steps}
	res.Hash = hashStr(before + fmt.Sprint(descs))
	res.NonTrivial = true
}

// caseIsolation: two simulators share WarriorData; the caller mutates it at
// arbitrary points of the history; each simulator must behave as the reference
// fed the data as it was at AddWarrior, and the caller's data must never change
// as a result of a battle (C14 d).
func caseIsolation(t *testing.T, tp *simrt.Tape, res *Result) {
	cfg := genBattleConfig(tp, false)
	hA := newHist(res, tp, cfg, "C14")
	hB := newHist(res, tp, cfg, "C14")
	if hA.dead || hB.dead {
		return
	}
	M := cfg.ref.M
	var pool []*gi.WarriorData
	var mirror []gi.WarriorData // what the caller's data must look like
	nd := 1 + tp.Draw("iso.ndata", 3)
	for i := 0; i < nd; i++ {
		d := warToI(genWarrior(tp, M, int(min(M, 5))))
		pool = append(pool, &d)
		mirror = append(mirror, *d.Copy())
	}
	add := func(h *histState, di int) {
		d := pool[di]
		asAdded := warFromI(*d)
		var hd gi.Warrior
		f, _ := safeCall(20000+50*int64(M), func() { hd, _ = h.box.sim.AddWarrior(d) })
		h.log("AddWarrior(shared#%d %s)", di, warStr(asAdded))
		if f != nil {
			h.callFailed("AddWarrior", f)
			return
		}
		if hd == nil {
			if !h.model.Executed {
				h.res.add("C13", "C13 refinement AddWarrior returned an error or nil", map[string]any{})
				h.dead = true
			}
			return // refused mid-battle: acceptable (undefined state)
		}
		h.box.handles = append(h.box.handles, hd)
		h.data = append(h.data, asAdded)
		h.caller = append(h.caller, d)
		h.spawned = append(h.spawned, false)
		h.offsets = append(h.offsets, 0)
		h.model.AddWarrior(asAdded)
		h.observe("AddWarrior", true)
	}
	// a third simulator with a smaller core adds the same shared data at a
	// drawn moment: whatever it does with fields beyond its own core size, the
	// caller's data and the other simulators must not notice
	small := cfg.gi
	small.CoreSize = gi.Address(max(3, int(M)/2))
	small.ReadLimit, small.WriteLimit, small.Length, small.Distance = small.CoreSize, small.CoreSize, small.CoreSize, 0
	smallAt := tp.Draw("iso.small.at", 12)
	before := len(res.Viol)
	nOps := 4 + tp.Draw("iso.len", 24)
	for k := 0; k < nOps && !hA.dead && !hB.dead; k++ {
		if k == smallAt {
			safeCall(200000, func() {
				if sm, err := gi.NewSimulator(small); err == nil {
					for _, d := range pool {
						sm.AddWarrior(d)
					}
					sm.SpawnWarrior(0, 0)
					sm.RunCycle()
				}
			})
			res.stat("probe.third-simulator-smaller-core", 1)
		}
		h := hA
		if tp.Draw("iso.which", 2) == 1 {
			h = hB
		}
		switch op := tp.Draw("iso.op", 12); {
		case op < 2 && len(h.data) < 3:
			add(h, tp.Draw("iso.data", len(pool)))
		case op < 5 && len(h.data) > 0:
			i := tp.Draw("iso.spawn", len(h.data))
			// the valid re-spawn places are dictated by the model
			h.opSpawn(i, uint64(tp.Draw("iso.off", int(M))))
		case op < 8:
			h.opRunCycle()
		case op < 9:
			h.opRun()
		case op < 10:
			h.opReset()
		default:
			// caller mutates shared data
			di := tp.Draw("iso.mut.data", len(pool))
			d := pool[di]
			switch tp.Draw("iso.mut.kind", 4) {
			case 0:
				if len(d.Code) > 0 {
					d.Code[tp.Draw("iso.mut.cell", len(d.Code))] = insToI(genIns(tp, M))
				}
			case 1:
				if len(d.Code) > 0 {
					d.Start = tp.Draw("iso.mut.start", len(d.Code))
				}
			case 2:
				d.Code = append(d.Code, insToI(genIns(tp, M)))
			default:
				d.Name += "x"
			}
			mirror[di] = *d.Copy()
			hA.log("MutateSharedData(#%d)", di)
			res.stat("probe.caller-data-mutated", 1)
			hA.observe("MutateSharedData", true)
			if !hB.dead {
				hB.observe("MutateSharedData", true)
			}
		}
		for i, d := range pool {
			if fmt.Sprint(*d) != fmt.Sprint(mirror[i]) {
				res.add("C14", "C14 isolation caller's warrior data changed by the simulator", map[string]any{"data": i, "now": fmt.Sprint(*d), "expected": fmt.Sprint(mirror[i])})
				mirror[i] = *d.Copy()
			}
		}
	}
	// every refinement failure seen in this engine is an isolation failure
	for _, v := range res.Viol[before:] {
		if v.Prop == "C13" && strings.Contains(v.Sig, "refinement") {
			res.add("C14", "C14 isolation simulator behaviour differs from the data as added ("+strings.TrimPrefix(v.Sig, "C13 refinement ")+")", v.Detail)
		}
	}
	hA.finishDecoded(res, "isolation")
	res.Decoded["calls_b"] = hB.ops
	res.Hash = hashStr(fmt.Sprint(res.Decoded))
	res.NonTrivial = true
}

// caseRepeat: one assembly, several schedules / map orders / deliveries (C14 a).
func caseRepeat(t *testing.T, tp *simrt.Tape, res *Result) {
	cfgP := genConfig(tp)
	cfg := cfgI(cfgP)
	tc := genAsmText(tp, cfgP, asmMix{program: 55, mutated: 20, soup: 5, raw: 0, corpus: 20, legalPct: 90})
	base := runAsm(t, tc.Text, simrt.ReaderPlan{ErrAt: -1}, simrt.ReplayTape(nil), cfg)
	sub := Result{}
	if !checkAsmRun(&sub, base, &tc, cfgP, "baseline") || sub.Discard != "" {
		res.Discard = "assembly does not complete on its own (subject of C05)"
		return
	}
	k := 2 + tp.Draw("rep.k", 3)
	msgs := map[string]bool{}
	for i := 0; i < k; i++ {
		plan := genLegalPlan(tp, len(tc.Text))
		v := runAsm(t, tc.Text, plan, tp, cfg)
		sub2 := Result{}
		if !checkAsmRun(&sub2, v, &tc, cfgP, "variant") {
			res.add("C14", "C14 nondeterminism assembly completes under one schedule and not under another", map[string]any{"violations": fmt.Sprint(sub2.Viol)})
			break
		}
		res.stat("ticks", v.out.Ticks)
		res.stat("map-ranges-permuted", int64(v.out.MapRanges))
		res.SchedHash ^= schedHash(v.out.Trace)
		if (base.err == nil) != (v.err == nil) || warIString(base.w) != warIString(v.w) {
			res.add("C14", "C14 nondeterminism assembly result depends on schedule, map order or read chunking", map[string]any{
				"baseline_err": fmt.Sprint(base.err), "variant_err": fmt.Sprint(v.err), "baseline": warIString(base.w), "variant": warIString(v.w)})
		}
		if v.err != nil {
			msgs[v.err.Error()] = true
		}
	}
	if len(msgs) > 1 {
		res.stat("error-message-varies(not-compared)", 1)
	}
	res.Decoded = map[string]any{"kind": "repeat", "text": string(tc.Text), "config": cfgMap(cfgP), "variants": k}
	res.Hash = hashStr(string(tc.Text) + fmt.Sprint(cfgP))
	res.NonTrivial = len(tc.Text) > 0
}

func caseC14(t *testing.T, tp *simrt.Tape, c *Ctx) (res Result) {
	switch k := tp.Draw("c14.kind", 10); {
	case k < 5:
		res.stat("sub.multi-job", 1)
		caseMultiJob(t, tp, &res)
	case k < 8:
		res.stat("sub.isolation", 1)
		caseIsolation(t, tp, &res)
	default:
		res.stat("sub.repeat", 1)
		caseRepeat(t, tp, &res)
	}
	// only C14 verdicts are this check's business
	var keep []Violation
	for _, v := range res.Viol {
		if v.Prop == "C14" {
			keep = append(keep, v)
		}
	}
	res.Viol = keep
	return
}

// TestStress: real threads, Go runtime scheduling, race detector on. Outside
// the deterministic core (its interleavings are not decided by the tape).
func TestStress(t *testing.T) {
	if os.Getenv("VERIF_ROLE") != "stress" {
		t.Skip("not a stress run")
	}
	seed := uint64(envInt("VERIF_SEED", 1))
	rounds := int(envInt("VERIF_STRESS_ROUNDS", 20))
	mismatches := 0
	jobsRun := 0
	for r := 0; r < rounds; r++ {
		tp := simrt.NewTape(seed, uint64(1_000_000+r))
		tp.NoRec = true
		var res Result
		jobs := genJobs(tp, &res)
		// multiply the job list over 1..32 threads
		threads := []int{1, 2, 4, 8, 16, 32}[r%6]
		seq := make([]jobResult, len(jobs))
		conc := make([][]jobResult, threads)
		var wg sync.WaitGroup
		// concurrent first, on cold state; sequential results afterwards
		for th := 0; th < threads; th++ {
			conc[th] = make([]jobResult, len(jobs))
			wg.Add(1)
			go func(th int) {
				defer wg.Done()
				defer func() { recover() }()
				for i, j := range jobs {
					if (i+th)%2 == 0 || threads < 4 {
						conc[th][i] = runJob(j, nil, func() {})
					}
				}
			}(th)
		}
		wg.Wait()
		for i, j := range jobs {
			done := make(chan struct{})
			go func() {
				defer func() { recover(); close(done) }()
				seq[i] = runJob(j, nil, func() {})
			}()
			<-done
		}
		for th := 0; th < threads; th++ {
			for i := range jobs {
				if conc[th][i].done {
					jobsRun++
					if seq[i].done && conc[th][i] != seq[i] {
						mismatches++
					}
				}
			}
		}
	}
	out := map[string]any{"rounds": rounds, "jobs_run": jobsRun, "mismatches": mismatches}
	must(writeJSON(os.Getenv("VERIF_OUT"), out))
}

func init() {
	register(&PropSpec{ID: "C14", Engine: "multi", Fn: caseC14, Quick: 40000, Thorough: 2000000, Level: "exploration", Race: true,
		Rule:  "a case is one of: (b/c) 2..6 jobs (assemble shared text; build simulator, add shared WarriorData, spawn, step, run; parse load file) as tasks of one seeded scheduler, interleaved at every channel operation and API call, each result compared with the job's sequential result, the same cases also executed in a -race build with scheduler hand-offs hidden from the detector; (d) two simulators sharing WarriorData under a history that mutates the caller's data at arbitrary points, each compared with the reference fed the data as added; (a) one assembly under 2..4 further schedules, map orders and deliveries; non-trivial = every completed case; distinct = distinct decoded case",
		Real:  []string{"assembler pipeline (goroutines)", "load-file reader", "simulator", "race detector (race build)"},
		Stubs: []string{"goroutine scheduling choice (seeded controller over real goroutines)", "map iteration order", "io.Reader", "time (tick clock)"},
		Assume: []string{"yield points are gmars' channel operations plus the harness's API-call boundaries; code between two yields runs atomically, races inside such regions are the race build's job",
			"a supplementary real-thread stress (1..32 threads, -race) runs outside the deterministic core; its schedules are the Go runtime's"},
		ExtraTier: c14Extra})
}
