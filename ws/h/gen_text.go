package h

import (
	"fmt"
	"os"
	"path/filepath"
	"strings"

	gp "vws/gmarsp"
	"vws/simrt"
)

// textCase is a generated assembler input.
type textCase struct {
	Kind      string
	Text      []byte
	EquLines  int
	ForBlocks int
	ExpTokens int     // estimated number of tokens after FOR expansion
	Amp       float64 // static EQU amplification bound
	Pristine  bool    // generated program with no mutation or in-flight corruption
	Notes     []string
}

var ops94 = []string{"dat", "mov", "add", "sub", "mul", "div", "mod", "jmp", "jmz", "jmn", "djn", "cmp", "seq", "sne", "slt", "spl", "nop"}
var ops88 = []string{"dat", "mov", "add", "sub", "jmp", "jmz", "jmn", "djn", "cmp", "slt", "spl"}
var mods94 = []string{"a", "b", "ab", "ba", "f", "x", "i"}
var modes94 = []string{"#", "$", "*", "@", "{", "<", "}", ">"}
var modes88 = []string{"#", "$", "@", "<"}
var predefs = []string{"CORESIZE", "MAXLENGTH", "MAXPROCESSES", "MINDISTANCE"}

type progGen struct {
	tp       *simrt.Tape
	cfg      gp.SimulatorConfig
	is88     bool
	labels   []string // labels that will be defined on instructions
	equs     []string // equ names defined so far
	counters []string // active FOR counters
	lines    []string
	pre      []string // lines emitted before everything else
	passes   int
	nInstr   int
	nEqu     int
	nFor     int
	expTok   int
	amp      float64
	mult     int // current FOR multiplier
	nameSeq  int
	notes    []string
	legalPct int
}

func (g *progGen) name(prefix string) string {
	g.nameSeq++
	return fmt.Sprintf("%s%d", prefix, g.nameSeq)
}

func (g *progGen) lit() string {
	m := int(g.cfg.CoreSize)
	switch g.tp.Draw("lit.kind", 10) {
	case 0, 1, 2, 3, 4:
		return fmt.Sprint(g.tp.Draw("lit.small", 10))
	case 5:
		return fmt.Sprint(g.tp.Draw("lit.med", 400))
	case 6:
		return fmt.Sprint(m - 1 - g.tp.Draw("lit.m-", 3))
	case 7:
		return fmt.Sprint(m + g.tp.Draw("lit.m+", 3))
	case 8:
		return fmt.Sprint(m/2 + g.tp.Draw("lit.m/2", 2))
	default:
		return fmt.Sprint(g.tp.Draw("lit.big", 100000))
	}
}

func (g *progGen) atom() string {
	k := g.tp.Draw("atom.kind", 12)
	switch {
	case k < 5:
		return g.lit()
	case k < 7 && len(g.labels) > 0:
		return g.labels[g.tp.Draw("atom.label", len(g.labels))]
	case k < 9 && len(g.equs) > 0:
		return g.equs[g.tp.Draw("atom.equ", len(g.equs))]
	case k < 10:
		return predefs[g.tp.Draw("atom.predef", len(predefs))]
	case k < 12 && len(g.counters) > 0:
		return g.counters[g.tp.Draw("atom.ctr", len(g.counters))]
	}
	return g.lit()
}

func (g *progGen) expr(depth int) string {
	if g.tp.Draw("expr.garbage", 60) == 0 {
		// an expression that ends in operators and signs
		return g.atom() + []string{"+-", "*-+", "--", "+", "-+-", "*", "/", "(", ")("}[g.tp.Draw("expr.garbage.kind", 9)]
	}
	k := g.tp.Draw("expr.kind", 10)
	if depth <= 0 || k < 5 {
		return g.atom()
	}
	switch k {
	case 5:
		return g.expr(depth-1) + "+" + g.expr(depth-1)
	case 6:
		return g.expr(depth-1) + "-" + g.expr(depth-1)
	case 7:
		return g.expr(depth-1) + "*" + g.atom()
	case 8:
		if g.tp.Draw("expr.neg", 2) == 0 {
			return "-" + g.atom()
		}
		return "(" + g.expr(depth-1) + ")"
	default:
		op := []string{"/", "%"}[g.tp.Draw("expr.divmod", 2)]
		return g.expr(depth-1) + op + fmt.Sprint(1+g.tp.Draw("expr.den", 7))
	}
}

func (g *progGen) instr(indent string) string {
	var op, mod, am, bm string
	oneOperand := g.tp.Draw("ins.one", 8) == 0
	if g.is88 {
		op = ops88[g.tp.Draw("ins.op", len(ops88))]
		legal := g.tp.Draw("ins.legal", 100) < g.legalPct
		am = modes88[g.tp.Draw("ins.am", len(modes88))]
		bm = modes88[g.tp.Draw("ins.bm", len(modes88))]
		if legal {
			switch op {
			case "dat":
				am = []string{"#", "<"}[g.tp.Draw("ins.datam", 2)]
				bm = []string{"#", "<"}[g.tp.Draw("ins.datbm", 2)]
			case "mov", "add", "sub", "cmp":
				if bm == "#" {
					bm = "$"
				}
			case "jmp", "jmz", "jmn", "djn", "spl":
				if am == "#" {
					am = "$"
				}
			}
		} else if g.tp.Draw("ins.94in88", 3) == 0 {
			// '94-only material inside an '88 program
			switch g.tp.Draw("ins.94kind", 3) {
			case 0:
				op = []string{"mul", "div", "mod", "seq", "sne", "nop"}[g.tp.Draw("ins.94op", 6)]
			case 1:
				if g.tp.Draw("ins.94side", 2) == 0 {
					am = []string{"*", "{", "}", ">"}[g.tp.Draw("ins.94am", 4)]
				} else {
					bm = []string{"*", "{", "}", ">"}[g.tp.Draw("ins.94bm", 4)]
				}
			default:
				mod = "." + mods94[g.tp.Draw("ins.94mod", len(mods94))]
			}
		}
		if g.tp.Draw("ins.dropmode", 4) == 0 && (am == "$" || (op == "dat" && am == "#")) {
			am = ""
		}
		if g.tp.Draw("ins.dropmode", 4) == 0 && (bm == "$" || (op == "dat" && bm == "#")) {
			bm = ""
		}
	} else {
		op = ops94[g.tp.Draw("ins.op", len(ops94))]
		if g.tp.Draw("ins.hasmod", 2) == 0 {
			mod = "." + mods94[g.tp.Draw("ins.mod", len(mods94))]
		}
		am = modes94[g.tp.Draw("ins.am", len(modes94))]
		bm = modes94[g.tp.Draw("ins.bm", len(modes94))]
		if am == "$" && g.tp.Draw("ins.dropmode", 2) == 0 {
			am = ""
		}
		if bm == "$" && g.tp.Draw("ins.dropmode", 2) == 0 {
			bm = ""
		}
	}
	if g.tp.Draw("ins.upper", 4) == 0 {
		op = strings.ToUpper(op)
		mod = strings.ToUpper(mod)
	}
	sp := []string{" ", "\t", "  "}[g.tp.Draw("ins.sp", 3)]
	a := g.expr(2)
	if oneOperand {
		return indent + op + mod + sp + am + a
	}
	b := g.expr(2)
	comma := []string{", ", ",", " , "}[g.tp.Draw("ins.comma", 3)]
	return indent + op + mod + sp + am + a + comma + bm + b
}

func (g *progGen) emitInstr(indent string) {
	lbl := ""
	if g.nInstr < len(g.labels) && g.mult == 1 {
		// labels are attached to instructions outside FOR bodies only (a label
		// inside a body would be defined once per expansion)
		lbl = g.labels[g.nInstr]
		if g.tp.Draw("lbl.colon", 3) == 0 {
			lbl += ":"
		}
		if g.tp.Draw("lbl.ownline", 6) == 0 {
			g.lines = append(g.lines, lbl)
			lbl = ""
		} else {
			lbl += " "
		}
		g.nInstr++
	}
	g.lines = append(g.lines, lbl+g.instr(indent))
	g.expTok += 8 * g.mult
}

func (g *progGen) item(depth int) {
	k := g.tp.Draw("item.kind", 20)
	switch {
	case k < 11:
		g.emitInstr("")
	case k < 13:
		n := g.name("e")
		body := g.expr(1)
		g.lines = append(g.lines, n+" equ "+body)
		g.equs = append(g.equs, n)
		g.nEqu++
		refs := strings.Count(body, "e") + 1
		g.amp *= float64(refs)
	case k < 14:
		cmp := []string{"==", ">=", "<=", ">", "<", "==", ">=", "!="}[g.tp.Draw("assert.cmp", 8)]
		switch g.tp.Draw("assert.kind", 4) {
		case 0:
			g.lines = append(g.lines, ";assert 1")
		case 1:
			g.lines = append(g.lines, fmt.Sprintf(";assert CORESIZE %s %s", cmp, g.lit()))
		case 2:
			g.lines = append(g.lines, ";assert "+g.expr(1)+" "+cmp+" "+g.expr(1))
		default:
			g.lines = append(g.lines, fmt.Sprintf(";assert CORESIZE == %d && MAXLENGTH >= %d", g.cfg.CoreSize, g.tp.Draw("assert.len", 5)))
		}
	case k < 15:
		g.lines = append(g.lines, []string{";redcode-94", ";name w " + g.lit(), ";author a", ";strategy s", "; plain comment", ";"}[g.tp.Draw("comment.kind", 6)])
	case k < 16:
		g.lines = append(g.lines, []string{"", " ", "\t"}[g.tp.Draw("blank.kind", 3)])
	case k < 19 && depth < 3 && g.nFor < 6 && g.passes+g.mult <= 11:
		g.forBlock(depth)
	default:
		g.lines = append(g.lines, "org "+g.startExpr())
	}
}

func (g *progGen) startExpr() string {
	n := g.nInstr
	switch g.tp.Draw("start.kind", 8) {
	case 0, 1:
		if len(g.labels) > 0 {
			return g.labels[g.tp.Draw("start.label", len(g.labels))]
		}
		return "0"
	case 2:
		return fmt.Sprint(g.tp.Draw("start.small", 4))
	case 3:
		return fmt.Sprint(n - 1)
	case 4:
		return fmt.Sprint(n)
	case 5:
		return fmt.Sprint(n + 1)
	case 6:
		return "-1"
	default:
		return g.expr(1)
	}
}

func (g *progGen) forBlock(depth int) {
	g.nFor++
	g.passes += g.mult // the expander handles one block per pass (limit 12)
	count := g.tp.Draw("for.count", 7)
	countStr := fmt.Sprint(count)
	if g.tp.Draw("for.equcount", 4) == 0 {
		// count given by a dedicated EQU so that the expansion stays bounded
		n := g.name("n")
		g.pre = append(g.pre, fmt.Sprintf("%s equ %d", n, count))
		g.nEqu++
		// sometimes through an alias chain (n2 equ n1): resolution order of
		// the symbol table must not matter
		for k := g.tp.Draw("for.alias", 3); k > 0; k-- {
			a := g.name("n")
			if g.tp.Draw("for.alias.pos", 2) == 0 {
				g.pre = append(g.pre, fmt.Sprintf("%s equ %s", a, n))
			} else {
				g.pre = append([]string{fmt.Sprintf("%s equ %s", a, n)}, g.pre...)
			}
			g.nEqu++
			n = a
		}
		countStr = n
	} else if g.tp.Draw("for.exprcount", 6) == 0 {
		countStr = fmt.Sprintf("%d+%d", count/2, count-count/2)
	}
	head := ""
	ctr := ""
	if g.tp.Draw("for.linelabel", 4) == 0 {
		head += g.name("fl") + " "
	}
	if g.tp.Draw("for.counter", 3) != 0 || head != "" {
		ctr = g.name("k")
		head += ctr + " "
	}
	g.lines = append(g.lines, head+"for "+countStr)
	saveMult := g.mult
	g.mult *= max(count, 1)
	if ctr != "" {
		g.counters = append(g.counters, ctr)
	}
	n := 1 + g.tp.Draw("for.body", 3)
	for i := 0; i < n; i++ {
		if depth < 2 && g.nFor < 6 && g.passes+g.mult <= 11 && g.tp.Draw("for.nest", 5) == 0 {
			g.forBlock(depth + 1)
		} else {
			g.emitInstr("  ")
		}
	}
	if ctr != "" {
		g.counters = g.counters[:len(g.counters)-1]
	}
	g.mult = saveMult
	g.lines = append(g.lines, "rof")
	g.expTok += 4
}

// genProgram builds a mostly valid program from an abstract description.
func genProgram(tp *simrt.Tape, cfg gp.SimulatorConfig, legalPct int) textCase {
	g := &progGen{tp: tp, cfg: cfg, is88: cfg.Mode == gp.ICWS88, amp: 1, mult: 1, legalPct: legalPct}
	nItems := 1 + tp.Draw("prog.items", 10)
	nLabels := tp.Draw("prog.labels", 4)
	for i := 0; i < nLabels; i++ {
		g.labels = append(g.labels, g.name("l"))
	}
	special := tp.Draw("prog.special", 40)
	for i := 0; i < nItems; i++ {
		g.item(0)
	}
	// make sure every declared label gets defined
	for g.nInstr < len(g.labels) {
		g.emitInstr("")
	}
	switch special {
	case 15: // the same opcode written in a form and in its mirror image (immediate operand on the other side, direct mode left out)
		op := []string{"mov", "add", "sub", "cmp", "djn", "jmz", "jmn", "spl", "slt", "jmp"}[tp.Draw("mirror.op", 10)]
		x, y := g.lit(), g.lit()
		pair := []string{op + " #" + x + ", " + y, op + " " + y + ", #" + x}
		if tp.Draw("mirror.order", 2) == 0 {
			pair[0], pair[1] = pair[1], pair[0]
		}
		g.lines = append(g.lines, pair...)
		g.notes = append(g.notes, "mirror-image-operands")
	case 16: // very many short lines (token counts far above anything the suite assembles)
		n := []int{40, 40, 40, 300, 900, 2000}[tp.Draw("manylines.n", 6)]
		for i := 0; i < n; i++ {
			g.lines = append(g.lines, "dat 0")
		}
		g.expTok += 6 * n
		g.notes = append(g.notes, "very-many-lines")
	case 17: // Go identifiers and non-ASCII digits where numbers are expected
		g.lines = append(g.lines, []string{"dat nil", "dat ٣", "mov ٣, 1", "jmp true", "x equ iota\ndat x", ";assert nil", ";assert ٣", "org nil", "dat 1٣", "dat ０"}[tp.Draw("goident.kind", 10)])
		g.notes = append(g.notes, "go-identifier-or-unicode-digit")
	case 12: // a lone self-referential EQU in front of everything (also of the first FOR)
		a := g.name("c")
		g.lines = append([]string{a + " equ " + a + "+1"}, g.lines...)
		if tp.Draw("selfref.for", 2) == 0 {
			g.lines = append(g.lines, "for 2", "dat 0", "rof")
		}
		g.notes = append(g.notes, "equ-self-reference-first")
	case 13: // more FOR blocks than the expander's pass limit
		n := 12 + tp.Draw("manyfor.n", 4)
		for i := 0; i < n; i++ {
			g.lines = append(g.lines, "for 1", "nop", "rof")
		}
		g.expTok += 8 * n * n
		g.notes = append(g.notes, "for-blocks-beyond-pass-limit")
	case 14: // lexer error token inside an EQU value
		g.lines = append([]string{g.name("q") + []string{" equ 1 = 2", " equ 3 & 1", " equ 2 |", " equ ="}[tp.Draw("equlexerr.kind", 4)]}, g.lines...)
		g.notes = append(g.notes, "equ-with-lex-error")
	case 0: // EQU cycle, optionally under an assertion
		a, b := g.name("c"), g.name("c")
		g.lines = append([]string{a + " equ " + b + "+1", b + " equ " + a}, g.lines...)
		g.notes = append(g.notes, "equ-cycle")
		if tp.Draw("cycle.assert", 2) == 0 {
			g.lines = append(g.lines, ";assert "+a)
			g.notes = append(g.notes, "assert-on-cycle")
		} else if tp.Draw("cycle.use", 2) == 0 {
			g.lines = append(g.lines, "dat "+a)
		}
	case 1: // self reference
		a := g.name("c")
		g.lines = append(g.lines, a+" equ "+a+" "+a, ";assert "+a)
		g.notes = append(g.notes, "equ-self-cycle-assert")
	case 2: // undefined symbol
		g.lines = append(g.lines, "dat undefinedsym"+g.lit())
		g.notes = append(g.notes, "undefined-symbol")
	case 3: // redefined label
		if len(g.labels) > 0 {
			g.lines = append(g.lines, g.labels[0]+" dat 0")
			g.notes = append(g.notes, "label-redefined")
		}
	case 4: // FOR with bad count
		g.lines = append(g.lines, []string{"for 1/0", "for nosuch", "x 5\nfor 1", "for", "for )", "for 2 2", "for nil", "for true", "for int", "gx equ nil\nfor gx", "for iota", "for ٣", "for len"}[tp.Draw("badfor.kind", 13)], "dat 0", "rof")
		g.notes = append(g.notes, "for-bad-count")
	case 5: // unterminated FOR
		g.lines = append(g.lines, "for 2", "dat 1")
		g.notes = append(g.notes, "for-unterminated")
	case 6: // stray ROF
		g.lines = append(g.lines, "rof")
		g.notes = append(g.notes, "rof-stray")
	case 7: // length near-miss: pad to Length-1 .. Length+1 instructions
		target := int(cfg.Length) - 1 + tp.Draw("len.delta", 3)
		if target >= 0 && target <= 320 {
			if target-g.nInstr > 6 && tp.Draw("len.viafor", 2) == 0 {
				g.lines = append(g.lines, fmt.Sprintf("for %d", target-g.nInstr), "dat 0", "rof")
				g.expTok += 8 * (target - g.nInstr)
				g.nFor++
			} else {
				for i := g.nInstr; i < target; i++ {
					g.lines = append(g.lines, "dat 0")
					g.expTok += 8
				}
			}
			g.notes = append(g.notes, "length-near-limit")
		}
	case 8: // lexer error after a FOR block
		g.lines = append(g.lines, "for 1", "dat 0", "rof", "dat 1 = 2")
		g.notes = append(g.notes, "for-then-lex-error")
	case 10: // EQU with an empty or odd body
		n := g.name("z")
		g.lines = append(g.lines, n+[]string{" equ ;nothing", " equ ; \n" + "dat " + n, " equ ()", " equ ,", " equ -"}[tp.Draw("oddequ.kind", 5)], "dat "+n)
		g.notes = append(g.notes, "equ-odd-body")
	case 11: // labels only, operands missing, lone pseudo-ops
		g.lines = append(g.lines, []string{"lonely", "mov", "org", "equ 3", "a b c d", "x: : :", "jmp ,"}[tp.Draw("odd.kind", 7)])
		g.notes = append(g.notes, "odd-line")
	case 9: // error token inside a FOR body / count
		g.lines = append(g.lines, []string{"for 2 &", "for 2\ndat 1 | 1\nrof", "for 2\ndat 1\nrof &"}[tp.Draw("forerr.kind", 3)])
		g.notes = append(g.notes, "for-with-lex-error")
	}
	switch tp.Draw("prog.end", 10) {
	case 8: // a label on the END line, used as the entry point
		l := g.name("fin")
		g.lines = append(g.lines, l+" end "+l)
		g.notes = append(g.notes, "end-label-as-entry-point")
	case 9: // ORG naming a label that sits on the END line
		l := g.name("fin")
		g.lines = append([]string{"org " + l}, g.lines...)
		g.lines = append(g.lines, l+" end")
		g.notes = append(g.notes, "org-to-end-label")
	case 0:
		g.lines = append(g.lines, "end")
	case 1:
		g.lines = append(g.lines, "end "+g.startExpr())
	case 2:
		g.lines = append(g.lines, "end "+g.startExpr(), "this is ignored !!! ~")
	}
	g.lines = append(g.pre, g.lines...)
	nl := "\n"
	if tp.Draw("render.crlf", 6) == 0 {
		nl = "\r\n"
	}
	text := strings.Join(g.lines, nl)
	if tp.Draw("render.finalnl", 4) != 0 {
		text += nl
	}
	return textCase{Pristine: true, Kind: "program", Text: []byte(text), EquLines: g.nEqu, ForBlocks: g.nFor, ExpTokens: g.expTok + 16*len(g.lines), Amp: g.amp, Notes: g.notes}
}

var soupVocab = []string{
	"dat", "mov", "add", "sub", "mul", "div", "mod", "jmp", "jmz", "jmn", "djn", "cmp", "seq", "sne", "slt", "spl", "nop",
	"mov.i", "add.ab", "dat.f", "jmp.x", "mov.", ".i", "equ", "org", "end", "for", "rof", "FOR", "ROF", "EQU", "END",
	"#", "$", "@", "<", ">", "{", "}", "*", "+", "-", "/", "%", "(", ")", ",", ":", "==", "!=", "<=", ">=", "&&", "||", "=", "&", "|", "!",
	"0", "1", "2", "3", "7", "00", "007", "8000", "99999", "4294967296", "99999999999999999999",
	"nil", "int", "true", "false", "iota", "len", "string", "error", "any", "٣", "０", "Ⅷ", "x٣", "٣x",
	"a", "b", "x", "lbl", "CORESIZE", "MAXLENGTH", "MAXPROCESSES", "MINDISTANCE", "CURLINE", "_", "a_b", "é", "x1",
	";assert 1", ";assert 0", ";assert a", ";assert CORESIZE==1", ";assert (", ";name n", ";author", ";strategy", ";", ";redcode",
	"\n", "\n", "\n", "\r\n", "\t", " ", "\x1a", "\x00", "~", "\"", "'", "\\",
}

func genSoup(tp *simrt.Tape) textCase {
	n := 1 + tp.Draw("soup.n", 40)
	var sb strings.Builder
	equ, fors := 0, 0
	for i := 0; i < n; i++ {
		tok := soupVocab[tp.Draw("soup.tok", len(soupVocab))]
		lt := strings.ToLower(tok)
		if lt == "equ" {
			equ++
		}
		if lt == "for" {
			fors++
		}
		sb.WriteString(tok)
		if !strings.HasSuffix(tok, "\n") && tp.Draw("soup.sep", 5) != 0 {
			sb.WriteString(" ")
		}
	}
	if tp.Draw("soup.finalnl", 2) == 0 {
		sb.WriteString("\n")
	}
	return textCase{Kind: "soup", Text: []byte(sb.String()), EquLines: equ, ForBlocks: fors, ExpTokens: 64 * (n + 4), Amp: float64(int(1) << min(equ*2, 30))}
}

var rawBytes = []byte{0, 1, 0x1a, '\n', '\r', '\t', ' ', ';', ',', ':', '.', '_', '0', '9', 'a', 'z', 'A', 'f', 'o', 'r', 'e', 'q', 'u', 'd', 't', '#', '$', '@', '<', '>', '{', '}', '*', '+', '-', '/', '%', '(', ')', '=', '&', '|', '!', 0x7f, 0x80, 0xbf, 0xc3, 0xa9, 0xe2, 0x82, 0xac, 0xf0, 0xff, 0xfe}

func genRaw(tp *simrt.Tape) textCase {
	n := tp.Draw("raw.n", 80)
	b := make([]byte, n)
	for i := range b {
		if tp.Draw("raw.any", 8) == 0 {
			b[i] = byte(tp.Draw("raw.byte", 256))
		} else {
			b[i] = rawBytes[tp.Draw("raw.pick", len(rawBytes))]
		}
	}
	return textCase{Kind: "raw", Text: b, EquLines: 2, ForBlocks: 1, ExpTokens: 64 * (n + 4), Amp: 16}
}

var corpus [][]byte

func loadCorpus() {
	root := getenv("VERIF_REPO", "/repo")
	for _, pat := range []string{"warriors/88/*.red", "warriors/94/*.red", "warriors/*.rc", "test_files/*.rc"} {
		ms, _ := filepath.Glob(filepath.Join(root, pat))
		for _, m := range ms {
			if b, err := os.ReadFile(m); err == nil && len(b) < 8000 {
				corpus = append(corpus, b)
			}
		}
	}
	// a few hand-written shapes that exercise the expander and the symbol code
	for _, s := range []string{
		"i j for 3\ndat i, j\nrof\n",
		"org start\ndat 1\ni for 3\nj for 2\ndat i, j\nrof\nrof\nstart dat 2\n",
		"n equ 3\nfor n\nnop\nrof\nend\n",
		"a equ 1\nb equ a+a\nc equ b*b\ndat c, a\n;assert c==4\n",
		"x: y: mov.i #1, }2\n\n\nz jmp x\n",
		"for 0\ndat 1\nrof\ndat 2\n",
		"for 2\nfor 2\nfor 2\ndat 1\nrof\nrof\nrof\n",
	} {
		corpus = append(corpus, []byte(s))
	}
}

func genCorpus(tp *simrt.Tape) textCase {
	if corpus == nil {
		loadCorpus()
	}
	b := corpus[tp.Draw("corpus.pick", len(corpus))]
	cp := append([]byte{}, b...)
	lt := strings.ToLower(string(cp))
	fors := strings.Count(lt, "for")
	return textCase{Kind: "corpus", Text: cp, EquLines: strings.Count(lt, "equ"), ForBlocks: fors, ExpTokens: 40*len(cp) + 2000, Amp: 4}
}

var mutDict = []string{"for 2\n", "rof\n", " equ ", ";assert ", "end\n", "org ", ":", ",", "==", "&&", "|", "=", "&", "\x1a", "\x00", "(", ")", "/0", "%0", "\n", "\r", " ", "for ", "rof", "-", "--", "+-", "9", "for 1\n", "dat 0\n", "a equ a\n", ";assert a\n", "\xff", "é"}

// mutate applies one text-level mutation; returns the kind applied.
func mutate(tp *simrt.Tape, b []byte, label string) ([]byte, string) {
	k := tp.Draw(label+".kind", 9)
	if len(b) == 0 {
		k = 4
	}
	switch k {
	case 0: // flip a byte to an interesting one
		i := tp.Draw(label+".pos", len(b))
		c := append([]byte{}, b...)
		c[i] = rawBytes[tp.Draw(label+".byte", len(rawBytes))]
		return c, "flip"
	case 1: // delete a range
		i := tp.Draw(label+".pos", len(b))
		n := 1 + tp.Draw(label+".len", min(8, len(b)-i))
		return append(append([]byte{}, b[:i]...), b[i+n:]...), "del"
	case 2: // duplicate a range
		i := tp.Draw(label+".pos", len(b))
		n := 1 + tp.Draw(label+".len", min(12, len(b)-i))
		c := append([]byte{}, b[:i+n]...)
		c = append(c, b[i:i+n]...)
		return append(c, b[i+n:]...), "dup"
	case 3: // swap two lines
		lines := strings.SplitAfter(string(b), "\n")
		if len(lines) >= 2 {
			i := tp.Draw(label+".l1", len(lines))
			j := tp.Draw(label+".l2", len(lines))
			lines[i], lines[j] = lines[j], lines[i]
			return []byte(strings.Join(lines, "")), "swap"
		}
		return b, "swap"
	case 4: // insert a dictionary snippet
		i := tp.Draw(label+".pos", len(b)+1)
		s := mutDict[tp.Draw(label+".dict", len(mutDict))]
		c := append([]byte{}, b[:i]...)
		c = append(c, s...)
		return append(c, b[i:]...), "ins"
	case 5: // delete a whitespace-separated token
		f := strings.Fields(string(b))
		if len(f) > 1 {
			i := tp.Draw(label+".tok", len(f))
			idx := strings.Index(string(b), f[i])
			if idx >= 0 {
				return append(append([]byte{}, b[:idx]...), b[idx+len(f[i]):]...), "deltok"
			}
		}
		return b, "deltok"
	case 6: // truncate
		i := tp.Draw(label+".pos", len(b)+1)
		return append([]byte{}, b[:i]...), "trunc"
	case 7: // delete a whole line
		lines := strings.SplitAfter(string(b), "\n")
		if len(lines) >= 2 {
			i := tp.Draw(label+".l1", len(lines))
			lines = append(lines[:i], lines[i+1:]...)
			return []byte(strings.Join(lines, "")), "delline"
		}
		return b, "delline"
	default: // duplicate a whole line
		lines := strings.SplitAfter(string(b), "\n")
		i := tp.Draw(label+".l1", len(lines))
		ln := lines[i]
		if !strings.HasSuffix(ln, "\n") {
			ln += "\n"
		}
		lines = append(lines[:i+1], append([]string{ln}, lines[i+1:]...)...)
		return []byte(strings.Join(lines, "")), "dupline"
	}
}

// genConfig draws a valid configuration (swarm over modes and sizes).
func genConfig(tp *simrt.Tape) gp.SimulatorConfig {
	sizes := []int{8000, 8000, 80, 800, 8192, 3, 4, 5, 7, 10, 16, 17, 256, 55440, 1 << 20}
	m := sizes[tp.Draw("cfg.size", len(sizes))]
	if tp.Draw("cfg.randsize", 8) == 0 {
		m = 3 + tp.Draw("cfg.size.rand", 200)
	}
	mode := []gp.SimulatorMode{gp.ICWS94, gp.ICWS88, gp.NOP94}[tp.Draw("cfg.mode", 3)]
	lens := []int{100, 100, 100, 300, 20, 20, 5, 5, 2, 1, 0, 8000}
	l := lens[tp.Draw("cfg.len", len(lens))]
	if l > m {
		l = m
	}
	d := 0
	if m-l > 0 {
		d = tp.Draw("cfg.dist", min(m-l, 200)+1)
	}
	procs := []int{8000, 1, 2, 64}[tp.Draw("cfg.procs", 4)]
	return gp.SimulatorConfig{
		Mode: mode, CoreSize: gp.Address(m), Processes: gp.Address(procs), Cycles: gp.Address(1 + tp.Draw("cfg.cycles", 1000)),
		ReadLimit: gp.Address(m), WriteLimit: gp.Address(m), Length: gp.Address(l), Distance: gp.Address(d),
	}
}

func cfgMap(c gp.SimulatorConfig) map[string]any {
	return map[string]any{"mode": int(c.Mode), "coresize": uint64(c.CoreSize), "processes": uint64(c.Processes), "cycles": uint64(c.Cycles),
		"readlimit": uint64(c.ReadLimit), "writelimit": uint64(c.WriteLimit), "length": uint64(c.Length), "distance": uint64(c.Distance)}
}
