package h

import (
	"fmt"
	"runtime"
	"strings"

	gi "vws/gmarsi"
	"vws/ref"
)

func runtimeStack(buf []byte) int { return runtime.Stack(buf, false) }

// foldAlt is one admissible recorder state of an address.
type foldAlt struct {
	state gi.CoreState
	owner int
}

// foldCell is the expected recorder state: the last-writer fold of the
// reference event stream (with alternatives where the text allows several).
type foldCell struct {
	owner int
	alts  []foldAlt
}

func (c *foldCell) set(st gi.CoreState, w int) { c.alts = []foldAlt{{st, w}}; c.owner = w }

func repTypeName(t gi.ReportType) string {
	switch t {
	case gi.SimReset:
		return "SimReset"
	case gi.CycleStart:
		return "CycleStart"
	case gi.CycleEnd:
		return "CycleEnd"
	case gi.WarriorSpawn:
		return "WarriorSpawn"
	case gi.WarriorTaskPop:
		return "WarriorTaskPop"
	case gi.WarriorTaskPush:
		return "WarriorTaskPush"
	case gi.WarriorTaskTerminate:
		return "WarriorTaskTerminate"
	case gi.WarriorTerminate:
		return "WarriorTerminate"
	case gi.WarriorRead:
		return "WarriorRead"
	case gi.WarriorWrite:
		return "WarriorWrite"
	case gi.WarriorDecrement:
		return "WarriorDecrement"
	case gi.WarriorIncrement:
		return "WarriorIncrement"
	}
	return fmt.Sprintf("type%d", t)
}

func repStr(r gi.Report) string {
	return fmt.Sprintf("%s(w%d,%d)", repTypeName(r.Type), r.WarriorIndex, r.Address)
}

type gTask struct {
	w, pc    int
	touched  map[uint64]bool // write / increment / decrement reports of that warrior
	taskTerm int
	warTerm  int
	foreign  []string // reports in this window carrying another warrior's index
}

type rTask struct {
	w, pc     int
	may       map[uint64]bool
	changed   map[uint64]bool
	taskDeath bool
	warDeath  bool
}

// checkReports consumes the reports and reference events produced by one call.
func (h *histState) checkReports(call string, strict bool, s *snap) {
	reps := h.box.lis.reps[h.evPos:]
	h.evPos = len(h.box.lis.reps)
	evs := h.model.Events
	h.model.Events = h.model.Events[:0]
	M := h.cfg.ref.M
	n := len(h.data)
	v := func(sig string, detail map[string]any) {
		detail["call"] = call
		h.res.add("C15", "C15 "+sig, detail)
	}
	// (always) addresses and warrior indices
	for _, r := range reps {
		switch r.Type {
		case gi.SimReset, gi.CycleStart, gi.CycleEnd:
			continue
		}
		if uint64(r.Address) >= M {
			v("report address not below core size in "+repTypeName(r.Type), map[string]any{"report": repStr(r), "coresize": M})
		}
		if r.WarriorIndex < 0 || r.WarriorIndex >= n {
			v("report names a warrior that does not exist in "+repTypeName(r.Type), map[string]any{"report": repStr(r), "warriors": n})
		}
	}
	h.res.stat("reports", int64(len(reps)))
	if !strict {
		h.resyncFold()
		return
	}
	// split both streams into task windows
	var gt []*gTask
	var cur *gTask
	for _, r := range reps {
		switch r.Type {
		case gi.WarriorTaskPop:
			cur = &gTask{w: r.WarriorIndex, pc: int(r.Address), touched: map[uint64]bool{}}
			gt = append(gt, cur)
		case gi.WarriorWrite, gi.WarriorIncrement, gi.WarriorDecrement, gi.WarriorTaskTerminate, gi.WarriorTerminate:
			if cur == nil {
				if r.Type == gi.WarriorWrite && strings.HasPrefix(call, "SpawnWarrior") {
					continue // naming the loaded cells one by one is allowed
				}
				v("effect reported outside any announced task: "+repTypeName(r.Type), map[string]any{"report": repStr(r)})
				continue
			}
			if r.WarriorIndex != cur.w {
				cur.foreign = append(cur.foreign, repStr(r))
				continue
			}
			switch r.Type {
			case gi.WarriorTaskTerminate:
				cur.taskTerm++
				if int(r.Address) != cur.pc {
					v("task termination reported at an address other than the task's program counter", map[string]any{"report": repStr(r), "pc": cur.pc})
				}
			case gi.WarriorTerminate:
				cur.warTerm++
			default:
				cur.touched[uint64(r.Address)] = true
			}
		case gi.CycleStart, gi.CycleEnd, gi.SimReset, gi.WarriorSpawn:
			if r.Type != gi.WarriorSpawn {
				cur = nil
			}
		}
	}
	var rt []*rTask
	var rc *rTask
	for _, e := range evs {
		switch e.Kind {
		case ref.EvExec:
			rc = &rTask{w: e.W, pc: int(e.Addr), may: map[uint64]bool{}, changed: map[uint64]bool{}}
			rt = append(rt, rc)
		case ref.EvDec, ref.EvInc, ref.EvWrite, ref.EvWriteAttempt:
			rc.may[e.Addr] = true
			if e.Changed {
				rc.changed[e.Addr] = true
			}
		case ref.EvTaskDeath:
			rc.taskDeath = true
		case ref.EvWarDeath:
			rc.warDeath = true
		}
	}
	if len(gt) != len(rt) {
		v("number of announced tasks differs from tasks executed", map[string]any{"announced": len(gt), "executed": len(rt)})
	}
	for i := 0; i < len(gt) && i < len(rt); i++ {
		g, r := gt[i], rt[i]
		if g.w != r.w || g.pc != r.pc {
			v("announced task differs from the task executed", map[string]any{"task": i, "announced": fmt.Sprintf("w%d@%d", g.w, g.pc), "executed": fmt.Sprintf("w%d@%d", r.w, r.pc)})
			break
		}
		ins := insStr(h.taskIns(i, evs))
		for a := range r.changed {
			if !g.touched[a] {
				v("changed cell not named in any write/increment/decrement report of the task", map[string]any{"task": fmt.Sprintf("w%d@%d", r.w, r.pc), "addr": a, "reported": keysOf(g.touched), "instruction": ins})
			}
		}
		for a := range g.touched {
			if !r.may[a] {
				v("report names a cell the instruction cannot touch", map[string]any{"task": fmt.Sprintf("w%d@%d", r.w, r.pc), "addr": a, "may_touch": keysOf(r.may), "instruction": ins})
			}
		}
		if len(g.foreign) > 0 {
			v("report inside a task carries another warrior's index", map[string]any{"task": fmt.Sprintf("w%d@%d", r.w, r.pc), "reports": g.foreign})
		}
		if (g.taskTerm > 0) != r.taskDeath || g.taskTerm > 1 {
			v("task termination report does not match task death", map[string]any{"task": fmt.Sprintf("w%d@%d", r.w, r.pc), "reports": g.taskTerm, "died": r.taskDeath, "instruction": ins})
		}
		if (g.warTerm > 0) != r.warDeath || g.warTerm > 1 {
			v("warrior termination report does not match warrior death", map[string]any{"task": fmt.Sprintf("w%d@%d", r.w, r.pc), "reports": g.warTerm, "died": r.warDeath})
		}
		h.res.stat("tasks-checked", 1)
		if len(r.changed) > 1 {
			h.res.stat("probe.task-changed-several-cells", 1)
		}
	}
	// downstream: the bundled recorder against the last-writer fold
	h.foldEvents(evs)
	for a := uint64(0); a < M; a++ {
		st, owner := h.box.rec.GetMemState(gi.Address(a))
		ok := false
		for _, alt := range h.fold[a].alts {
			if alt.state == st && alt.owner == owner {
				ok = true
			}
		}
		if len(h.fold[a].alts) == 0 {
			ok = st == gi.CoreEmpty && owner == -1
		}
		if !ok {
			v("recorder state differs from the last operation on the address", map[string]any{"addr": a, "recorder": fmt.Sprintf("state=%d owner=%d", st, owner), "expected_one_of": fmt.Sprint(h.fold[a].alts)})
			h.resyncFold()
			break
		}
	}
}

func keysOf(m map[uint64]bool) []uint64 {
	var out []uint64
	for k := range m {
		out = append(out, k)
	}
	return out
}

// taskIns is only used for diagnostics: the instruction is not kept by the
// event stream, so report the cell at the task's program counter as it is now.
func (h *histState) taskIns(i int, evs []ref.Event) ref.Ins {
	k := -1
	for _, e := range evs {
		if e.Kind == ref.EvExec {
			k++
			if k == i {
				return h.model.Core[e.Addr]
			}
		}
	}
	return ref.Ins{}
}

func (h *histState) foldEvents(evs []ref.Event) {
	M := h.cfg.ref.M
	var taskWrites map[uint64]bool
	for _, e := range evs {
		switch e.Kind {
		case ref.EvReset:
			for i := range h.fold {
				h.fold[i] = foldCell{owner: -1}
			}
		case ref.EvSpawn:
			n := uint64(len(h.data[e.W].Code))
			for j := uint64(0); j < n; j++ {
				h.fold[(e.Addr+j)%M].set(gi.CoreWritten, e.W)
			}
		case ref.EvExec:
			h.fold[e.Addr].set(gi.CoreExecuted, e.W)
			taskWrites = map[uint64]bool{}
		case ref.EvDec:
			h.fold[e.Addr].set(gi.CoreDecremented, e.W)
		case ref.EvInc:
			h.fold[e.Addr].set(gi.CoreIncremented, e.W)
		case ref.EvWrite:
			h.fold[e.Addr].set(gi.CoreWritten, e.W)
			taskWrites[e.Addr] = true
		case ref.EvWriteAttempt:
			// naming the target of a failed DIV/MOD is allowed, not required
			if len(h.fold[e.Addr].alts) == 0 {
				h.fold[e.Addr].alts = []foldAlt{{gi.CoreEmpty, -1}} // untouched so far: staying empty remains admissible
			}
			h.fold[e.Addr].alts = append(h.fold[e.Addr].alts, foldAlt{gi.CoreWritten, e.W})
			taskWrites[e.Addr] = true
		case ref.EvTaskDeath:
			if taskWrites[e.Addr] {
				// DIV/MOD by zero whose target is the instruction itself:
				// either order of the two reports is accepted (and the write
				// report may be absent when nothing was stored)
				h.fold[e.Addr].alts = []foldAlt{{gi.CoreTerminated, e.W}, {gi.CoreWritten, e.W}}
			} else {
				h.fold[e.Addr].set(gi.CoreTerminated, e.W)
			}
		}
	}
}

func (h *histState) resyncFold() {
	for a := range h.fold {
		st, owner := h.box.rec.GetMemState(gi.Address(a))
		if st == gi.CoreEmpty && owner == -1 {
			h.fold[a] = foldCell{owner: -1}
		} else {
			h.fold[a].set(st, owner)
		}
	}
}
