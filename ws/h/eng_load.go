package h

import (
	"fmt"
	"strings"
	"testing"

	gi "vws/gmarsi"
	gp "vws/gmarsp"
	"vws/ref"
	"vws/simrt"
)

// ---- by-construction warriors for the load-file engines -----------------------

func genLoadIns(tp *simrt.Tape, M uint64, is88 bool) ref.Ins {
	field := func(label string) uint64 {
		if len(fieldHints) > 0 && tp.Draw(label+".hint", 5) == 0 {
			return fieldHints[tp.Draw(label+".hintval", len(fieldHints))] % M
		}
		switch tp.Draw(label+".kind", 8) {
		case 0:
			return 0
		case 1:
			return 1 % M
		case 2:
			return M - 1
		case 3:
			return M / 2
		case 4:
			return (M/2 + 1) % M
		case 5:
			return (M - 2) % M
		default:
			return uint64(tp.Draw(label+".val", int(min(M, 1<<20))))
		}
	}
	if !is88 {
		return ref.Ins{Op: ref.Op(tp.Draw("li.op", int(ref.NumOps))), Mod: ref.Mod(tp.Draw("li.mod", int(ref.NumMods))),
			AMode: ref.Mode(tp.Draw("li.am", int(ref.NumModes))), A: field("li.a"),
			BMode: ref.Mode(tp.Draw("li.bm", int(ref.NumModes))), B: field("li.b")}
	}
	ops := []ref.Op{ref.DAT, ref.MOV, ref.ADD, ref.SUB, ref.JMP, ref.JMZ, ref.JMN, ref.DJN, ref.CMP, ref.SLT, ref.SPL}
	modes := []ref.Mode{ref.Immediate, ref.Direct, ref.BIndirect, ref.BPredec}
	for {
		i := ref.Ins{Op: ops[tp.Draw("li.op", len(ops))], AMode: modes[tp.Draw("li.am", 4)], A: field("li.a"), BMode: modes[tp.Draw("li.bm", 4)], B: field("li.b")}
		if ok, mod := ref.Legal88(i); ok {
			i.Mod = mod
			return i
		}
		// illegal combination drawn: make it legal deterministically
		switch i.Op {
		case ref.DAT:
			i.AMode, i.BMode = ref.Immediate, ref.BPredec
		case ref.MOV, ref.ADD, ref.SUB, ref.CMP:
			i.BMode = ref.Direct
		default:
			i.AMode = ref.Direct
		}
		if ok, mod := ref.Legal88(i); ok {
			i.Mod = mod
			return i
		}
	}
}

func genLoadWarrior(tp *simrt.Tape, M uint64, is88 bool, maxLen int) ref.Warrior {
	n := 1 + tp.Draw("lw.len", maxLen)
	w := ref.Warrior{}
	for i := 0; i < n; i++ {
		w.Code = append(w.Code, genLoadIns(tp, M, is88))
	}
	switch tp.Draw("lw.start.kind", 4) {
	case 0:
		w.Start = 0
	case 1:
		w.Start = n - 1
	default:
		w.Start = tp.Draw("lw.start", n)
	}
	return w
}

func genLoadConfig(tp *simrt.Tape) gp.SimulatorConfig {
	fieldHints = fieldHints[:0]
	sizes := []int{8000, 80, 800, 8192, 3, 5, 16, 17, 256, 55440, 1 << 20}
	m := sizes[tp.Draw("lc.size", len(sizes))]
	mode := []gp.SimulatorMode{gp.ICWS94, gp.ICWS88, gp.NOP94}[tp.Draw("lc.mode", 3)]
	l := min(m, 100)
	return gp.SimulatorConfig{Mode: mode, CoreSize: gp.Address(m), Processes: 8000, Cycles: 80000, ReadLimit: gp.Address(m), WriteLimit: gp.Address(m), Length: gp.Address(l), Distance: 0}
}

// renderLoad prints W canonically and applies layout-only perturbations.
func renderLoad(tp *simrt.Tape, res *Result, w ref.Warrior, M uint64, is88 bool) ([]byte, []string) {
	var feats []string
	spell := tp.Draw("rl.spelling", 4)
	lines := ref.Canon(w, M, is88, func(int) (ref.Spelling, ref.Spelling, uint64) {
		switch spell {
		case 0:
			return ref.SpUnsigned, ref.SpUnsigned, 1
		case 1:
			return ref.SpSigned, ref.SpSigned, 1
		default:
			return ref.Spelling(tp.Draw("rl.spA", 4)), ref.Spelling(tp.Draw("rl.spB", 4)), uint64(1 + tp.Draw("rl.k", 3))
		}
	})
	if spell > 0 {
		feats = append(feats, "signed-or-congruent-fields")
	}
	// where the entry point is written is a choice too: ORG n first and/or a
	// bare END last, END n last, ORG n last
	switch tp.Draw("rl.entrystyle", 6) {
	case 0:
		body := lines
		if is88 {
			body = lines[:len(lines)-1]
		} else {
			body = lines[1:]
		}
		lines = append([]string{fmt.Sprintf("ORG %d", w.Start)}, append(append([]string{}, body...), "END")...)
		feats = append(feats, "org-first-bare-end-last")
	case 1:
		if !is88 {
			lines = append(append([]string{}, lines[1:]...), fmt.Sprintf("ORG %d", w.Start))
			feats = append(feats, "org-last")
		}
	}
	flag := func(name string, den int) bool {
		if tp.Draw("rl."+name, den) == 0 {
			feats = append(feats, name)
			res.stat("fault.layout-"+name, 1)
			return true
		}
		return false
	}
	lower := flag("lowercase", 3)
	tabs := flag("tabs-and-extra-blanks", 3)
	crlf := flag("crlf", 4)
	comments := flag("comment-lines", 3)
	blanks := flag("blank-lines", 3)
	meta := flag("metadata", 3)
	mixed := flag("mixed-case-letters", 4)
	commaBlanks := flag("blanks-around-commas", 3)
	trailing := flag("trailing-comment", 4)
	semis := flag("comment-containing-semicolons", 5)
	longLine := flag("line-longer-than-4096-bytes", 12)
	noFinalNL := flag("no-final-newline", 3)
	var out []string
	if meta {
		out = append(out, ";redcode-94", ";name Test warrior", ";author Somebody", ";strategy line one", ";strategy line two", ";assert 1")
	}
	for i, ln := range lines {
		if lower && tp.Draw("rl.lowerline", 2) == 0 {
			ln = strings.ToLower(ln)
		}
		if mixed {
			b := []byte(ln)
			for j := range b {
				if b[j] >= 'A' && b[j] <= 'Z' && tp.Draw("rl.letter", 2) == 0 {
					b[j] += 'a' - 'A'
				}
			}
			ln = string(b)
		}
		if commaBlanks {
			ln = strings.ReplaceAll(ln, ",", []string{" ,", " , ", "\t,\t"}[tp.Draw("rl.commakind", 3)])
		}
		if tabs {
			ln = strings.ReplaceAll(ln, " ", []string{"  ", "\t", " \t "}[tp.Draw("rl.tabkind", 3)])
			if tp.Draw("rl.indent", 2) == 0 {
				ln = "       " + ln
			}
			if tp.Draw("rl.trailblank", 2) == 0 {
				ln += "   "
			}
		}
		if trailing && tp.Draw("rl.trailingline", 2) == 0 {
			ln += " ; note"
		}
		if semis && tp.Draw("rl.semisline", 2) == 0 {
			ln += []string{" ; copy ; the imp", " ;; step", " ; a;b;c ;"}[tp.Draw("rl.semikind", 3)]
		}
		if longLine && tp.Draw("rl.longline", 3) == 0 {
			switch tp.Draw("rl.longkind", 3) {
			case 0:
				ln += strings.Repeat(" ", 4090+tp.Draw("rl.longpad", 3000))
			case 1:
				ln += " ;" + strings.Repeat("-", 4090+tp.Draw("rl.longpad", 3000))
			default:
				out = append(out, ";strategy "+strings.Repeat("=", 4090+tp.Draw("rl.longpad", 70000)))
			}
		}
		if comments && tp.Draw("rl.commentbefore", 3) == 0 {
			out = append(out, "; a comment line")
		}
		if blanks && tp.Draw("rl.blankbefore", 3) == 0 {
			out = append(out, []string{"", "   ", "\t"}[tp.Draw("rl.blankkind", 3)])
		}
		out = append(out, ln)
		_ = i
	}
	nl := "\n"
	if crlf {
		nl = "\r\n"
	}
	text := strings.Join(out, nl)
	if !noFinalNL {
		text += nl
	}
	return []byte(text), feats
}

func genLegalPlan(tp *simrt.Tape, n int) simrt.ReaderPlan {
	plan := simrt.ReaderPlan{ErrAt: -1}
	plan.MaxChunk = []int{0, 1, 2, 3, 7, 64}[tp.Draw("rd.maxchunk", 6)]
	plan.ZeroReads = []int{0, 0, 2, 6}[tp.Draw("rd.zeroreads", 4)]
	plan.EOFWithData = tp.Draw("rd.eofwithdata", 2) == 1
	if n > 1 && tp.Draw("rd.twochunk", 4) == 0 {
		plan.Chunks = []int{1 + tp.Draw("rd.boundary", n-1)}
	}
	return plan
}

func loadVia(cfg gi.SimulatorConfig, data []byte, plan simrt.ReaderPlan, tp *simrt.Tape) (w gi.WarriorData, err error, fail *callFail, rd *simrt.Reader) {
	rd = simrt.NewReader(data, plan, tp)
	fail, _ = safeCall(int64(400000+600*len(data)), func() { w, err = gi.ParseLoadFile(rd, cfg) })
	return
}

func diffWarrior(got ref.Warrior, want ref.Warrior) string {
	if len(got.Code) < len(want.Code) {
		return "fewer instructions than written"
	}
	if len(got.Code) > len(want.Code) {
		return "more instructions than written"
	}
	for i := range want.Code {
		if got.Code[i] != want.Code[i] {
			return "different instruction"
		}
	}
	if got.Start != want.Start {
		return "different entry point"
	}
	return ""
}

// caseRoundTrip (C09)
func caseRoundTrip(t *testing.T, tp *simrt.Tape, c *Ctx) (res Result) {
	defer func() { res.stat("ticks", battleTicks); battleTicks = 0 }()
	cfgP := genLoadConfig(tp)
	cfg := cfgI(cfgP)
	M := uint64(cfgP.CoreSize)
	is88 := cfgP.Mode == gp.ICWS88
	maxLen := int(min(uint64(cfgP.Length), 12))
	if tp.Draw("rt.long", 20) == 0 {
		maxLen = int(cfgP.Length)
	}
	if maxLen < 1 {
		maxLen = 1
	}
	w := genLoadWarrior(tp, M, is88, maxLen)
	text, feats := renderLoad(tp, &res, w, M, is88)
	plan := genLegalPlan(tp, len(text))
	if len(text) > 16384 {
		// very long texts: byte-sized chunks would only multiply the number of
		// draws; chunk boundaries inside long lines are still exercised at 64+
		plan.ZeroReads = 0
		if plan.MaxChunk > 0 && plan.MaxChunk < 64 {
			plan.MaxChunk = 64
		}
	}
	res.Decoded = map[string]any{"kind": "round-trip", "config": cfgMap(cfgP), "warrior": warStr(w), "text": string(text), "layout": feats,
		"reader": map[string]any{"max_chunk": plan.MaxChunk, "zero_reads_of_16": plan.ZeroReads, "eof_with_data": plan.EOFWithData, "chunks": plan.Chunks}}
	res.Hash = hashStr(string(text) + fmt.Sprint(cfgP))
	res.NonTrivial = true
	check := func(which string, plan simrt.ReaderPlan, tape *simrt.Tape) {
		got, err, fail, rd := loadVia(cfg, text, plan, tape)
		readerStats(&res, rd)
		res.stat("loader-reads", 1)
		if fail != nil {
			res.add("C09", "C09 loader "+fail.class+" "+fail.disc, map[string]any{"delivery": which, "value": fail.value})
			res.add("C10", "C10 "+fail.class+" "+fail.disc, map[string]any{"delivery": which, "value": fail.value})
			return
		}
		if err != nil {
			res.add("C09", "C09 loader rejects a well-formed load file", map[string]any{"delivery": which, "err": err.Error()})
			return
		}
		if d := diffWarrior(warFromI(got), w); d != "" {
			res.add("C09", "C09 loader reads "+d, map[string]any{"delivery": which, "got": warStr(warFromI(got)), "want": warStr(w)})
		}
	}
	if tp.Draw("rt.decoy", 2) == 0 {
		// an earlier read of the same text under another configuration must
		// not influence this one (no state may survive between calls)
		dc := cfg
		dc.CoreSize = gi.Address([]uint64{8000, 800, 80, 8192, 55440}[tp.Draw("rt.decoy.size", 5)])
		dc.ReadLimit, dc.WriteLimit, dc.Length = dc.CoreSize, dc.CoreSize, min(dc.CoreSize, 100)
		safeCall(int64(400000+600*len(text)), func() { gi.ParseLoadFile(strings.NewReader(string(text)), dc) })
		runAsm(t, text, simrt.ReaderPlan{ErrAt: -1}, simrt.ReplayTape(nil), dc)
		res.stat("probe.decoy-call-with-other-config", 1)
	}
	check("plain", simrt.ReaderPlan{ErrAt: -1}, nil)
	check("drawn", plan, tp)
	if c.Tier == "thorough" && len(text) <= 240 {
		// fault enumeration: every two-chunk boundary, both EOF styles
		for k := 1; k < len(text); k++ {
			for _, eofw := range []bool{false, true} {
				check(fmt.Sprintf("two-chunk@%d eof-with-data=%v", k, eofw), simrt.ReaderPlan{ErrAt: -1, Chunks: []int{k}, EOFWithData: eofw}, nil)
			}
		}
		res.stat("enumerated-chunk-boundaries", int64(len(text)-1))
	}
	// the assembler on the same text, under the scheduler
	asmCheck := func(which string, plan simrt.ReaderPlan, tape *simrt.Tape) {
		r := runAsm(t, text, plan, tape, cfg)
		tc := textCase{Kind: "canonical", ExpTokens: 12 * (len(w.Code) + 8), Amp: 1, Pristine: true}
		sub := Result{}
		usable := checkAsmRun(&sub, r, &tc, cfgP, which)
		for _, v := range sub.Viol {
			if v.Prop == "C05" {
				res.add("C09", "C09 assembler on load-file text: "+strings.TrimPrefix(v.Sig, "C05 "), v.Detail)
			}
			res.add(v.Prop, v.Sig, v.Detail)
		}
		res.stat("ticks", r.out.Ticks)
		if !usable {
			return
		}
		if r.err != nil {
			res.add("C09", "C09 assembler rejects a well-formed load file", map[string]any{"delivery": which, "err": r.err.Error()})
			return
		}
		if d := diffWarrior(warFromI(r.w), w); d != "" {
			res.add("C09", "C09 assembler reads "+d, map[string]any{"delivery": which, "got": warStr(warFromI(r.w)), "want": warStr(w)})
		}
		res.SchedHash = schedHash(r.out.Trace)
	}
	if len(w.Code) <= 40 {
		asmCheck("drawn", plan, tp)
		res.stat("assembler-reads", 1)
	}
	return
}

// ---- C10: corrupted load files ---------------------------------------------------

var junkNumbers = []string{"-9223372036854775808", "9223372036854775807", "-9223372036854775807", "-1", "99999999999", "-99999999999", "9223372036854775808", "0x10", "1e3", "1.5", "+", "-", "abc", "", "٣", "1_000", " 7", "00", "-0", "+5", "2147483648", "4294967296"}
var junkOps = []string{"XYZ", "MOVE", "MOV.", ".I", "MOV.Q", "MOV.IX", "DAT.F.F", "LDP", "STP", "mov.i", "ORG", "END", "FOR", "EQU", "org", "end", "Ｍov", "MOV.I;"}

func corruptLoad(tp *simrt.Tape, res *Result, lines []string, ncode int, M uint64) ([]string, []string) {
	var faults []string
	n := 1 + tp.Draw("cl.n", 3)
	for k := 0; k < n; k++ {
		if len(lines) == 0 {
			break
		}
		i := tp.Draw("cl.line", len(lines))
		f := strings.Fields(strings.ReplaceAll(lines[i], ",", " , "))
		kind := tp.Draw("cl.kind", 15)
		name := ""
		switch kind {
		case 0:
			name = "field-deleted"
			if len(f) > 0 {
				j := tp.Draw("cl.field", len(f))
				f = append(f[:j], f[j+1:]...)
			}
			lines[i] = strings.Join(f, " ")
		case 1:
			name = "field-duplicated"
			if len(f) > 0 {
				j := tp.Draw("cl.field", len(f))
				f = append(f[:j+1], f[j:]...)
			}
			lines[i] = strings.Join(f, " ")
		case 2:
			name = "fields-transposed"
			if len(f) > 1 {
				j := tp.Draw("cl.field", len(f)-1)
				f[j], f[j+1] = f[j+1], f[j]
			}
			lines[i] = strings.Join(f, " ")
		case 3:
			name = "number-replaced"
			for j := range f {
				if len(f[j]) > 0 && (f[j][0] >= '0' && f[j][0] <= '9' || f[j][0] == '-') && tp.Draw("cl.num", 2) == 0 {
					f[j] = junkNumbers[tp.Draw("cl.junknum", len(junkNumbers))]
				}
			}
			lines[i] = strings.Join(f, " ")
		case 4:
			name = "mnemonic-replaced"
			if len(f) > 0 {
				f[0] = junkOps[tp.Draw("cl.junkop", len(junkOps))]
			}
			lines[i] = strings.Join(f, " ")
		case 5:
			name = "directive-inserted"
			d := []string{"ORG -1", "ORG 0", fmt.Sprintf("ORG %d", ncode-1), fmt.Sprintf("ORG %d", ncode), fmt.Sprintf("ORG %d", ncode+1), "END", "END -1", fmt.Sprintf("END %d", ncode), fmt.Sprintf("END %d", ncode+1), "ORG", "ORG 1 2", "END 1 2", "ORG x", "END x", "org 1", "end 0", "ORG 99999999999"}[tp.Draw("cl.dir", 17)]
			lines = append(lines[:i], append([]string{d}, lines[i:]...)...)
		case 6:
			name = "line-duplicated"
			lines = append(lines[:i+1], lines[i:]...)
		case 7:
			name = "line-deleted"
			lines = append(lines[:i], lines[i+1:]...)
		case 8:
			name = "comma-removed"
			lines[i] = strings.ReplaceAll(lines[i], ",", " ")
		case 9:
			name = "mode-replaced"
			for j := range f {
				if len(f[j]) == 1 && strings.ContainsAny(f[j], "#$@<>*{}") {
					f[j] = []string{"?", "", "##", "%", "$$", "*", "{", "}", ">", "#"}[tp.Draw("cl.junkmode", 10)]
					break
				}
			}
			lines[i] = strings.Join(f, " ")
		case 10:
			name = "mode-glued-to-number"
			lines[i] = strings.NewReplacer("$ ", "$", "# ", "#", "@ ", "@", "< ", "<").Replace(lines[i])
		case 11:
			name = "lines-joined"
			if i+1 < len(lines) {
				lines[i] = lines[i] + " " + lines[i+1]
				lines = append(lines[:i+1], lines[i+2:]...)
			}
		case 12:
			name = "out-of-range-number"
			for j := range f {
				if len(f[j]) > 0 && f[j][0] >= '0' && f[j][0] <= '9' {
					f[j] = fmt.Sprint(M + uint64(tp.Draw("cl.over", 3)))
					break
				}
			}
			lines[i] = strings.Join(f, " ")
		case 13:
			if tp.Draw("cl.longline", 12) == 0 {
				// a line longer than any reasonable buffer (64 KiB and more)
				name = "very-long-line"
				long := strings.Repeat("x", 66000+tp.Draw("cl.longlen", 4000))
				if tp.Draw("cl.longkind", 2) == 0 {
					lines = append(lines[:i+1], append([]string{"DAT.F # 0, # 0 ; " + long}, lines[i+1:]...)...)
				} else {
					lines = append(lines[:i+1], append([]string{long}, lines[i+1:]...)...)
				}
				break
			}
			fallthrough
		default:
			name = "garbage-line"
			lines = append(lines[:i], append([]string{[]string{"~", "mov", "1 2 3 4 5", "a b c d e", ", , , , ,", "MOV.I $ 0 $ 1 ,", "DAT.F # 0, # 0 extra"}[tp.Draw("cl.garbage", 7)]}, lines[i:]...)...)
		}
		faults = append(faults, name)
		res.stat("fault."+name, 1)
	}
	return lines, faults
}

// checkLoadResult applies the C10 oracles to one read.
func checkLoadResult(res *Result, cfgP gp.SimulatorConfig, data []byte, got gi.WarriorData, err error, fail *callFail, which string) {
	M := uint64(cfgP.CoreSize)
	is88 := cfgP.Mode == gp.ICWS88
	if fail != nil {
		res.add("C10", "C10 "+fail.class+" "+fail.disc, map[string]any{"delivery": which, "value": fail.value, "text": string(data)})
		return
	}
	zero := got.Name == "" && got.Author == "" && got.Strategy == "" && len(got.Code) == 0 && got.Start == 0
	if err != nil {
		res.stat("probe.load-rejected", 1)
		if !zero {
			res.add("C10", "C10 neither-nor-both error together with a warrior", map[string]any{"delivery": which, "err": err.Error()})
		}
		return
	}
	res.stat("probe.load-accepted", 1)
	// (nil and empty code are the same thing to a Go caller; an empty result
	// with no error is judged by the conservation check below)
	w := warFromI(got)
	if clause := ref.WellFormed(w, M, -1, is88); clause != "" {
		res.add("C10", "C10 accepted warrior: "+clause, map[string]any{"delivery": which, "text": string(data), "got": warStr(w), "start": got.Start})
	}
	lines, certain := ref.ClassifyLoadFile(data)
	if !certain {
		res.stat("conservation-check-off(uncertain-classification)", 1)
		return
	}
	res.stat("conservation-checks", 1)
	instr := 0
	var lastDir *ref.LineInfo
	for i := range lines {
		switch lines[i].Class {
		case ref.LInstructionShaped:
			instr++
		case ref.LDirective:
			if lines[i].NArgs > 0 {
				lastDir = &lines[i]
			}
		}
	}
	if instr != len(got.Code) {
		what := "instruction-shaped line skipped silently"
		if instr < len(got.Code) {
			what = "more instructions than instruction-shaped lines"
		}
		res.add("C10", "C10 conservation "+what, map[string]any{"delivery": which, "text": string(data), "lines": instr, "instructions": len(got.Code)})
	}
	if lastDir != nil {
		if fmt.Sprint(got.Start) != strings.TrimLeft(lastDir.Arg, "+0") && !(got.Start == 0 && strings.Trim(lastDir.Arg, "+-0") == "") {
			res.add("C10", "C10 conservation entry-point directive not reflected", map[string]any{"delivery": which, "text": string(data), "directive": lastDir.Text, "start": got.Start})
		}
	}
}

// caseLoadReject (C10)
func caseLoadReject(t *testing.T, tp *simrt.Tape, c *Ctx) (res Result) {
	defer func() { res.stat("ticks", battleTicks); battleTicks = 0 }()
	cfgP := genLoadConfig(tp)
	cfg := cfgI(cfgP)
	M := uint64(cfgP.CoreSize)
	is88 := cfgP.Mode == gp.ICWS88
	w := genLoadWarrior(tp, M, is88, 6)
	var text []byte
	var faults []string
	if tp.Draw("lr.perturbed", 2) == 0 {
		var feats []string
		text, feats = renderLoad(tp, &res, w, M, is88)
		faults = append(faults, feats...)
	} else {
		text = []byte(strings.Join(ref.Canon(w, M, is88, nil), "\n") + "\n")
	}
	if tp.Draw("lr.corrupt", 5) != 0 {
		lines := strings.Split(strings.TrimSuffix(string(text), "\n"), "\n")
		var fl []string
		lines, fl = corruptLoad(tp, &res, lines, len(w.Code), M)
		faults = append(faults, fl...)
		text = []byte(strings.Join(lines, "\n"))
		if tp.Draw("lr.finalnl", 3) != 0 {
			text = append(text, '\n')
		}
	}
	nb := tp.Draw("lr.byteflips", 4)
	if nb == 3 {
		for k := 0; k < 1+tp.Draw("lr.nflips", 3); k++ {
			var kind string
			text, kind = mutate(tp, text, "lr.flip")
			faults = append(faults, "bytes:"+kind)
			res.stat("fault.bytes-"+kind, 1)
		}
	}
	trunc := -1
	if len(text) > 0 && tp.Draw("lr.trunc", 3) == 0 {
		trunc = tp.Draw("lr.trunc.at", len(text)+1)
		res.stat("fault.trunc", 1)
	}
	plan := genLegalPlan(tp, len(text))
	if tp.Draw("lr.readerr", 6) == 0 {
		plan.ErrAt = tp.Draw("lr.readerr.at", len(text)+1)
	}
	delivered := text
	if trunc >= 0 {
		delivered = text[:trunc]
		faults = append(faults, fmt.Sprintf("trunc@%d", trunc))
	}
	res.Decoded = map[string]any{"kind": "load-reject", "config": cfgMap(cfgP), "text": string(delivered), "faults": faults,
		"reader": map[string]any{"max_chunk": plan.MaxChunk, "zero_reads_of_16": plan.ZeroReads, "eof_with_data": plan.EOFWithData, "err_at": plan.ErrAt, "chunks": plan.Chunks}}
	res.Hash = hashStr(string(delivered) + fmt.Sprint(cfgP, plan.ErrAt))
	res.NonTrivial = len(delivered) > 0
	run := func(data []byte, plan simrt.ReaderPlan, tape *simrt.Tape, which string) (gi.WarriorData, error, bool) {
		got, err, fail, rd := loadVia(cfg, data, plan, tape)
		readerStats(&res, rd)
		eff := data
		if plan.ErrAt >= 0 && plan.ErrAt < len(data) {
			eff = data[:plan.ErrAt] // a failed read: what the reader can know
		}
		checkLoadResult(&res, cfgP, eff, got, err, fail, which)
		return got, err, fail == nil
	}
	if tp.Draw("lr.decoy", 2) == 0 {
		dc := cfg
		dc.CoreSize = gi.Address([]uint64{8000, 800, 80, 8192, 55440}[tp.Draw("lr.decoy.size", 5)])
		dc.ReadLimit, dc.WriteLimit, dc.Length = dc.CoreSize, dc.CoreSize, min(dc.CoreSize, 100)
		safeCall(int64(400000+600*len(delivered)), func() { gi.ParseLoadFile(strings.NewReader(string(delivered)), dc) })
		res.stat("probe.decoy-call-with-other-config", 1)
	}
	g1, e1, ok1 := run(delivered, simrt.ReaderPlan{ErrAt: -1}, nil, "plain")
	if plan.ErrAt < 0 {
		g2, e2, ok2 := run(delivered, plan, tp, "drawn")
		if ok1 && ok2 && ((e1 == nil) != (e2 == nil) || warIString(g1) != warIString(g2)) {
			res.add("C10", "C10 result depends on how the stream is chunked", map[string]any{"plain": fmt.Sprint(e1, warIString(g1)), "drawn": fmt.Sprint(e2, warIString(g2))})
			res.add("C09", "C09 loader result depends on how the stream is chunked", map[string]any{"plain": fmt.Sprint(e1, warIString(g1)), "drawn": fmt.Sprint(e2, warIString(g2))})
		}
	} else {
		run(delivered, plan, tp, "read-error")
	}
	// fault enumeration: truncation at every byte (thorough) or a sample (quick)
	if len(text) <= 260 {
		step := 1
		if c.Tier != "thorough" {
			step = max(1, len(text)/6)
		}
		cnt := 0
		for k := tp.Draw("lr.enum.offset", step); k <= len(text); k += step {
			got, err, fail, _ := loadVia(cfg, text[:k], simrt.ReaderPlan{ErrAt: -1}, nil)
			checkLoadResult(&res, cfgP, text[:k], got, err, fail, fmt.Sprintf("trunc@%d", k))
			cnt++
		}
		res.stat("fault.enumerated-truncation-points", int64(cnt))
	}
	// instrumentation transparency
	if len(res.Viol) == 0 && tp.Draw("transparency", 8) == 0 {
		pw, perr := gp.ParseLoadFile(strings.NewReader(string(delivered)), cfgP)
		res.stat("transparency-checks", 1)
		if (perr == nil) != (e1 == nil) || warPString(pw) != warIString(g1) {
			res.Infra = fmt.Sprintf("instrumentation transparency (loader): pristine (%v,%s) vs instrumented (%v,%s)", perr, warPString(pw), e1, warIString(g1))
		}
	}
	return
}

func init() {
	register(&PropSpec{ID: "C09", Engine: "load", Fn: caseRoundTrip, Quick: 600000, Thorough: 6000000, Level: "exploration",
		Rule:   "a case = by-construction warrior (legal in the dialect, fields across [0,M) incl. M/2, M/2+1) printed in the canonical load-file layout with drawn field spellings (unsigned, signed, congruent beyond M) and layout-only perturbations (case, blanks/tabs, CR-LF, comment and blank lines, metadata, trailing comments, missing final newline), delivered through the simulated reader (chunking, zero-length reads, EOF style, two-chunk boundary); read by ParseLoadFile (plain and drawn delivery; thorough: every two-chunk boundary x both EOF styles) and by CompileWarrior under the seeded scheduler; non-trivial = every case; distinct = distinct (text, configuration)",
		Real:   []string{"load-file reader", "lexer/expander/parser/compiler (assembler side, under the scheduler)"},
		Stubs:  []string{"io.Reader (simulated stream)", "goroutine scheduling choice", "map iteration order", "time (tick clock)"},
		Assume: []string{"canonical layout printer and field spelling in ref/canon.go; the dialect's legal instruction set from ref/legal88.go"}})
	register(&PropSpec{ID: "C10", Engine: "load", Fn: caseLoadReject, Quick: 3000000, Thorough: 20000000, Level: "fault_enumeration",
		Rule:   "a case = canonical (or layout-perturbed) load file + 0..3 field/line-level corruptions + optional byte-level corruption + optional truncation / read error, both dialects, core sizes {3,5,16,17,80,256,800,8000,8192,55440,2^20}; read plainly and through the drawn reader behaviour; additionally truncation points of the text are enumerated (thorough: every byte; quick: every len/6-th byte); oracles: no panic, bounded ticks, error xor well-formed warrior, conservation of lines against the independent classifier; non-trivial = delivered text non-empty; distinct = distinct (delivered bytes, configuration, error position)",
		Real:   []string{"load-file reader (parseLoadFile88 / parseLoadFile94, asm.go decoders)"},
		Stubs:  []string{"io.Reader (simulated stream)", "time (tick clock)"},
		Assume: []string{"independent line classifier ref.ClassifyLoadFile; cases whose lines contain control or non-ASCII bytes outside comments have the conservation check switched off (counted)"}})
}
