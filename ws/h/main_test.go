package h

import (
	"encoding/json"
	"fmt"
	"os"
	"runtime"
	"strconv"
	"syscall"
	"testing"
	"time"

	"vws/simrt"
)

func envInt(name string, def int64) int64 {
	if s := os.Getenv(name); s != "" {
		if v, err := strconv.ParseInt(s, 10, 64); err == nil {
			return v
		}
	}
	return def
}

func TestMain(m *testing.M) {
	switch os.Getenv("VERIF_ROLE") {
	case "driver":
		os.Exit(runDriver())
	default:
		os.Exit(m.Run())
	}
}

// TestWorker runs a slice of the case space of one property.
func TestWorker(t *testing.T) {
	if os.Getenv("VERIF_ROLE") != "worker" {
		t.Skip("not a worker")
	}
	prop := os.Getenv("VERIF_PROP")
	spec := props[prop]
	if spec == nil {
		fmt.Fprintf(os.Stderr, "unknown property %q\n", prop)
		os.Exit(2)
	}
	seed := uint64(envInt("VERIF_SEED", 1))
	wid := envInt("VERIF_WID", 0)
	nw := envInt("VERIF_NWORKERS", 1)
	n := envInt("VERIF_CASES", 100)
	from := envInt("VERIF_FROM", 0)
	out := os.Getenv("VERIF_OUT")
	if mem := envInt("VERIF_MEMLIMIT_MB", 0); mem > 0 && !simrt.RaceBuild {
		lim := syscall.Rlimit{Cur: uint64(mem) << 20, Max: uint64(mem) << 20}
		syscall.Setrlimit(syscall.RLIMIT_AS, &lim)
	}
	runtime.GOMAXPROCS(int(envInt("VERIF_GOMAXPROCS", 1)))
	ctx := &Ctx{Prop: prop, Tier: os.Getenv("VERIF_TIER"), Engine: spec.Engine}
	rep := &WorkerReport{AbortAt: -1, Worker: int(wid), Discards: map[string]int64{}, Stats: map[string]int64{}, MaxStats: map[string]int64{}}
	start := time.Now()
	seenSig := map[string]int{}
	hashes := map[uint64]struct{}{}
	scheds := map[uint64]struct{}{}
	states := map[uint64]struct{}{}
	orders := map[uint64]struct{}{}
	prog, _ := os.OpenFile(out+".progress", os.O_CREATE|os.O_WRONLY|os.O_TRUNC, 0o644)
	minBudget := int(envInt("VERIF_MIN_EVALS", 1500))
	maxSamples := 6
	var caselog *os.File
	if p := os.Getenv("VERIF_CASELOG"); p != "" {
		caselog, _ = os.Create(p)
		defer caselog.Close()
	}
	recycle := false
	minTotal := time.Duration(envInt("VERIF_MIN_TOTAL_SECONDS", 30)) * time.Second
	var minSpent time.Duration
	violCases := int64(0)
	maxViolCases := envInt("VERIF_MAX_VIOL_CASES", 40)
	for i := from + wid; i < n; i += nw {
		if violCases >= maxViolCases {
			// the tree is clearly broken for this property: report what was found
			rep.Stats["stopped-early-after-many-violations"] = 1
			break
		}
		if recycle {
			rep.AbortAt = i - nw
			rep.Stats["worker-recycled-for-memory"] = 1
			break
		}
		if prog != nil {
			prog.WriteAt([]byte(fmt.Sprintf("%-20d", i)), 0)
		}
		tp := simrt.NewTape(seed, uint64(i))
		r := spec.Fn(t, tp, ctx)
		rep.Cases++
		if caselog != nil {
			// one line per case: everything a replay must reproduce (never draws, never reads a clock)
			sh := uint64(0)
			for _, x := range r.StateHash {
				sh = sh*1099511628211 ^ x
			}
			var sigs []string
			for _, v := range r.Viol {
				sigs = append(sigs, v.Sig)
			}
			fmt.Fprintf(caselog, "case=%d draws=%d tape=%x sched=%x states=%x ticks=%d steps=%d discard=%q viol=%q\n", i, len(tp.Rec), hashJSON(tp.Values()), r.SchedHash, sh, r.Stats["ticks"], r.Stats["sched.steps"], r.Discard, sigs)
		}
		for k, v := range r.Stats {
			if len(k) > 4 && k[:4] == "max." {
				mergeMax(rep.MaxStats, k, v)
			} else {
				rep.Stats[k] += v
			}
		}
		if r.Infra != "" {
			rep.Infra = append(rep.Infra, fmt.Sprintf("case %d: %s", i, r.Infra))
			continue
		}
		if r.Discard != "" {
			rep.Discards[r.Discard]++
			continue
		}
		const setCap = 400000 // per worker; beyond it distinct counts are a lower bound
		if r.NonTrivial {
			rep.NonTrivial++
			if len(hashes) < setCap {
				hashes[r.Hash] = struct{}{}
			} else {
				rep.Stats["distinct-count-capped"] = 1
			}
		}
		if r.SchedHash != 0 && len(scheds) < setCap {
			scheds[r.SchedHash] = struct{}{}
		}
		for _, o := range r.Orders {
			if len(orders) < setCap {
				orders[o] = struct{}{}
			}
		}
		for _, s := range r.StateHash {
			if len(states) < setCap {
				states[s] = struct{}{}
			}
		}
		if len(rep.Samples) < maxSamples && r.NonTrivial && (i/nw)%7 == 0 {
			rep.Samples = append(rep.Samples, r.Decoded)
		}
		if (rep.Cases%32 == 0 || len(r.Viol) > 0) && heapInUse() > uint64(envInt("VERIF_RECYCLE_MB", 1500))<<20 {
			// tasks of aborted runs stay parked for ever and pin their memory:
			// recycle the process (the driver relaunches from the next case)
			recycle = true
		}
		if r.Abort {
			for _, v := range r.Viol {
				if v.Prop == prop {
					rep.Failures = append(rep.Failures, Failure{Viol: v, Case: uint64(i), Tape: tp.Values(), Decoded: r.Decoded, MinFrom: len(tp.Rec), Count: 1, Unstable: true})
				}
			}
			rep.AbortAt = i
			break
		}
		own := false
		for _, v := range r.Viol {
			if v.Prop == prop {
				own = true
			}
		}
		if own {
			violCases++
		}
		for _, v := range r.Viol {
			if v.Prop != prop {
				rep.Stats["other-property-violations."+v.Prop]++
				continue
			}
			if idx, ok := seenSig[v.Sig]; ok {
				rep.Failures[idx].Count++
				continue
			}
			labels := make([]string, len(tp.Rec))
			for j, d := range tp.Rec {
				labels[j] = d.L
			}
			f := Failure{Viol: v, Case: uint64(i), Tape: tp.Values(), Decoded: r.Decoded, MinFrom: len(tp.Rec), Count: 1, Worker: wid, NWorkers: nw, From: from}
			left := minTotal - minSpent
			if minSpent >= minTotal {
				left = 0
			}
			per := time.Duration(envInt("VERIF_MIN_SECONDS", 20)) * time.Second
			if left < per {
				per = left
			}
			t0 := time.Now()
			best, dec, det, evals := f.Tape, map[string]any(nil), map[string]any(nil), 0
			if per > 0 {
				best, dec, det, evals = minimise(t, spec.Fn, ctx, f.Tape, v, minBudget, per)
			}
			minSpent += time.Since(t0)
			f.MinEvals = evals
			if dec != nil {
				f.Tape, f.Decoded = best, dec
				f.Viol.Detail = det
			}
			// labels of the minimised tape
			tp2 := simrt.ReplayTape(f.Tape)
			spec.Fn(t, tp2, ctx)
			f.Labels = nil
			for _, d := range tp2.Rec {
				f.Labels = append(f.Labels, d.L)
			}
			_ = labels
			seenSig[v.Sig] = len(rep.Failures)
			rep.Failures = append(rep.Failures, f)
		}
	}
	for h := range hashes {
		rep.Hashes = append(rep.Hashes, h)
	}
	for h := range scheds {
		rep.Scheds = append(rep.Scheds, h)
	}
	for h := range states {
		rep.States = append(rep.States, h)
	}
	for h := range orders {
		rep.Orders = append(rep.Orders, h)
	}
	rep.WallS = time.Since(start).Seconds()
	rep.Done = true
	must(writeJSON(out, rep))
}

// TestReplay re-runs one case from a replay file (or from seed+case) in a
// fresh process and prints what it found as JSON on stdout.
func TestReplay(t *testing.T) {
	if os.Getenv("VERIF_ROLE") != "replay" {
		t.Skip("not a replay")
	}
	if mem := envInt("VERIF_MEMLIMIT_MB", 0); mem > 0 && !simrt.RaceBuild {
		lim := syscall.Rlimit{Cur: uint64(mem) << 20, Max: uint64(mem) << 20}
		syscall.Setrlimit(syscall.RLIMIT_AS, &lim)
	}
	runtime.GOMAXPROCS(int(envInt("VERIF_GOMAXPROCS", 1)))
	path := os.Getenv("VERIF_REPLAY")
	b, err := os.ReadFile(path)
	must(err)
	var rf ReplayFile
	must(json.Unmarshal(b, &rf))
	spec := props[rf.Property]
	if spec == nil {
		fmt.Fprintf(os.Stderr, "unknown property %q\n", rf.Property)
		os.Exit(2)
	}
	ctx := &Ctx{Prop: rf.Property, Tier: rf.Tier, Engine: spec.Engine, Replay: true}
	if rf.Prelude != nil {
		// re-create the process history: the cases this worker ran before
		for i := rf.Prelude.From + rf.Prelude.Worker; i < int64(rf.Case); i += rf.Prelude.NWorkers {
			spec.Fn(t, simrt.NewTape(rf.Seed, uint64(i)), ctx)
		}
	}
	var tp *simrt.Tape
	if rf.Tape != nil {
		tp = simrt.ReplayTape(rf.Tape)
	} else {
		tp = simrt.NewTape(rf.Seed, rf.Case)
	}
	r := spec.Fn(t, tp, ctx)
	res := map[string]any{"violations": r.Viol, "infra": r.Infra, "discard": r.Discard, "decoded": r.Decoded}
	must(writeJSON(os.Getenv("VERIF_OUT"), res))
}

func heapInUse() uint64 {
	var ms runtime.MemStats
	runtime.ReadMemStats(&ms)
	return ms.HeapInuse
}
