package h

import (
	"bytes"
	"context"
	"fmt"
	"os"
	"os/exec"
	"path/filepath"
	"regexp"
	"strconv"
	"strings"
	"testing"
	"time"

	gp "vws/gmarsp"
	"vws/ref"
	"vws/simrt"
)

type cliRun struct {
	stdout, stderr string
	exit           int
	timedOut       bool
	randDraws      int
}

func runCLI(dir string, args []string, randSeed int64) cliRun {
	ctx, cancel := context.WithTimeout(context.Background(), 90*time.Second)
	defer cancel()
	cmd := exec.CommandContext(ctx, os.Getenv("VERIF_CLI"), args...)
	cmd.Dir = dir
	logp := filepath.Join(dir, "rand.log")
	os.Remove(logp)
	cmd.Env = append(os.Environ(), fmt.Sprintf("VERIF_RAND_SEED=%d", randSeed), "VERIF_RAND_LOG="+logp)
	var so, se bytes.Buffer
	cmd.Stdout, cmd.Stderr = &so, &se
	err := cmd.Run()
	r := cliRun{stdout: so.String(), stderr: se.String()}
	if ctx.Err() != nil {
		r.timedOut = true
	}
	if ee, ok := err.(*exec.ExitError); ok {
		r.exit = ee.ExitCode()
	} else if err != nil {
		r.exit = -1
	}
	if b, e := os.ReadFile(logp); e == nil {
		r.randDraws = bytes.Count(b, []byte("\n"))
	}
	return r
}

// refBattle runs the reference MARS for the CLI's battle and returns the
// alive flags.
func refBattle(cfg ref.Config, ws []ref.Warrior, place uint64) []bool {
	m := ref.NewMars(cfg)
	for _, w := range ws {
		m.AddWarrior(w)
	}
	m.Spawn(0, 0)
	if len(ws) > 1 {
		m.Spawn(1, place)
	}
	flags, _ := m.Run()
	m.Events = nil
	return flags
}

type tally struct{ w1win, w1tie, w2win, w2tie int }

func (t *tally) add(flags []bool) {
	if len(flags) == 1 {
		if flags[0] {
			t.w1win++
		}
		return
	}
	if flags[0] {
		if flags[1] {
			t.w1tie++
		} else {
			t.w1win++
		}
	}
	if flags[1] {
		if flags[0] {
			t.w2tie++
		} else {
			t.w2win++
		}
	}
}

func (t tally) text(n int) string {
	s := fmt.Sprintf("%d %d\n", t.w1win, t.w1tie)
	if n > 1 {
		s += fmt.Sprintf("%d %d\n", t.w2win, t.w2tie)
	}
	return s
}

var reSpawn = regexp.MustCompile(`(?m)^w(\d\d) (\d+): Warrior Spawn$`)

func presetRef(name string) (ref.Config, gp.SimulatorConfig, bool) {
	c, err := gp.PresetConfig(name)
	if err != nil {
		return ref.Config{}, c, false
	}
	return ref.Config{M: uint64(c.CoreSize), P: uint64(c.Processes), C: uint64(c.Cycles), R: uint64(c.ReadLimit), W: uint64(c.WriteLimit)}, c, true
}

// caseCLI (C17)
func caseCLI(t *testing.T, tp *simrt.Tape, c *Ctx) (res Result) {
	dir := filepath.Join(getenv("VERIF_SCRATCH", os.TempDir()), fmt.Sprintf("cli-%d", os.Getpid()))
	os.MkdirAll(dir, 0o755)
	nw := 1 + tp.Draw("cli.nw", 4)
	if nw > 2 {
		nw = 2
	}
	var args []string
	var rc ref.Config
	is88 := false
	splitChain := false
	var L int
	usePreset := tp.Draw("cli.preset", 5) == 0
	presetName := ""
	if usePreset {
		names := []string{"88", "icws", "nop94", "noptiny", "nop256", "nopnano"}
		presetName = names[tp.Draw("cli.preset.name", len(names))]
		var pc gp.SimulatorConfig
		var ok bool
		rc, pc, ok = presetRef(presetName)
		if !ok {
			res.add("C17", "C17 documented preset is refused by the library", map[string]any{"preset": presetName})
			res.NonTrivial = true
			return
		}
		is88 = pc.Mode == gp.ICWS88
		L = int(pc.Length)
		args = append(args, "-preset", presetName)
		// other flags must be ignored
		switch tp.Draw("cli.preset.noise", 4) {
		case 0:
			args = append(args, "-s", "77", "-c", "3")
		case 1:
			if !is88 {
				args = append(args, "-8") // must be ignored: the preset decides the rule set
			}
		case 2:
			args = append([]string{"-p", "3", "-l", "2"}, args...)
		}
		res.stat("probe.preset", 1)
	} else {
		L = 1 + tp.Draw("cli.l", 8)
		M := 3*L + 1 + tp.Draw("cli.s.extra", 40)
		if tp.Draw("cli.s.big", 8) == 0 {
			M = []int{800, 8000}[tp.Draw("cli.s.bigval", 2)]
		}
		P := 1 + tp.Draw("cli.p", 6)
		C := 1 + tp.Draw("cli.c", 60)
		if tp.Draw("cli.pbig", 4) == 0 {
			P = M/2 + tp.Draw("cli.p.big", 2*M) // around and above the core size
			C = 100 + tp.Draw("cli.c.big", 700)
		}
		is88 = tp.Draw("cli.88", 3) == 0
		rc = ref.Config{M: uint64(M), P: uint64(P), C: uint64(C), R: uint64(M), W: uint64(M)}
		fl := [][]string{{"-s", strconv.Itoa(M)}, {"-p", strconv.Itoa(P)}, {"-c", strconv.Itoa(C)}, {"-l", strconv.Itoa(L)}}
		if tp.Draw("cli.defaults", 6) == 0 {
			// leave flags out: the documented defaults apply (README: core 8000,
			// processes 8000, cycles 80000, length 100)
			omit := 1 + tp.Draw("cli.defaults.mask", 15)
			if tp.Draw("cli.defaults.only-p", 3) == 0 {
				omit = 2
			}
			if omit == 2 && L >= 5 && M < 1<<(L-1) && tp.Draw("cli.defaults.chain", 3) != 0 {
				// only -p left out: a chain of splits that needs more tasks than
				// the core has cells, and a cycle limit that ends the battle just
				// before the last of them dies when the documented default of 8000
				// processes applies
				splitChain = true
				C = 1<<L - 2 - tp.Draw("cli.defaults.chain.c", 4)
				fl[2][1] = strconv.Itoa(C)
				res.stat("probe.split-chain-under-default-process-limit", 1)
			}
			var keep [][]string
			for i, f := range fl {
				if omit&(1<<i) == 0 {
					keep = append(keep, f)
					continue
				}
				switch i {
				case 0:
					M = 8000
				case 1:
					P = 8000
				case 2:
					C = 80000
				case 3:
					L = 100
				}
			}
			if M < 3*L+1 {
				M, keep = 8000, append(keep[:0:0], keep...)
				var k2 [][]string
				for _, f := range keep {
					if f[0] != "-s" {
						k2 = append(k2, f)
					}
				}
				keep = k2
			}
			fl = keep
			rc = ref.Config{M: uint64(M), P: uint64(P), C: uint64(C), R: uint64(M), W: uint64(M)}
			res.stat("probe.flags-left-to-defaults", 1)
		}
		if is88 {
			fl = append(fl, []string{"-8"})
		}
		// flag order is a choice too
		for len(fl) > 0 {
			i := tp.Draw("cli.flagorder", len(fl))
			args = append(args, fl[i]...)
			fl = append(fl[:i], fl[i+1:]...)
		}
	}
	var ws []ref.Warrior
	var files []string
	maxLen := min(L, 6)
	setFieldHints(rc.M, rc.R, rc.W)
	template := L >= 4 && tp.Draw("cli.template", 5) == 0
	sniper := template && tp.Draw("cli.template.kind", 2) == 0
	sniperD := uint64(3 + tp.Draw("cli.sniper.d", int(rc.M)-3))
	if len(fieldHints) > 0 && tp.Draw("cli.sniper.hint", 3) != 0 {
		sniperD = fieldHints[tp.Draw("cli.sniper.hintval", len(fieldHints))] % rc.M
	}
	for i := 0; i < nw; i++ {
		w := genLoadWarrior(tp, rc.M, is88, maxLen)
		if splitChain {
			if i == 0 {
				w = ref.Warrior{}
				for k := 0; k < L-1; k++ {
					w.Code = append(w.Code, ref.Ins{Op: ref.SPL, Mod: ref.MB, AMode: ref.Direct, A: 1, BMode: ref.Direct, B: 0})
				}
				w.Code = append(w.Code, ref.Ins{Op: ref.DAT, Mod: ref.MF, AMode: ref.Immediate, A: 0, BMode: ref.Immediate, B: 0})
			} else {
				w = ref.Warrior{Code: []ref.Ins{{Op: ref.JMP, Mod: ref.MB, AMode: ref.Direct, A: 0, BMode: ref.Direct, B: 0}}}
			}
		} else if template && sniper {
			// a sniper dropping one bomb at distance D on a sitter placed there:
			// the outcome depends on exactly where a write at distance D lands
			// (read/write limits of the configuration in force)
			if i == 0 {
				w = ref.Warrior{Code: []ref.Ins{
					{Op: ref.MOV, Mod: ref.MI, AMode: ref.Direct, A: 2, BMode: ref.Direct, B: sniperD},
					{Op: ref.JMP, Mod: ref.MB, AMode: ref.Direct, A: 0, BMode: ref.Direct, B: 0},
					{Op: ref.DAT, Mod: ref.MF, AMode: ref.Immediate, A: 0, BMode: ref.Immediate, B: 0}}}
			} else {
				w = ref.Warrior{Code: []ref.Ins{{Op: ref.JMP, Mod: ref.MB, AMode: ref.Direct, A: 0, BMode: ref.Direct, B: 0}}}
			}
		} else if template {
			// classic shapes whose outcome depends on process counts and timing:
			// a process hoarder and a stepping bomber
			if i == 0 {
				w = ref.Warrior{Code: []ref.Ins{{Op: ref.SPL, Mod: ref.MB, AMode: ref.Direct, A: 0, BMode: ref.Direct, B: 0}, {Op: ref.JMP, Mod: ref.MB, AMode: ref.Direct, A: rc.M - 1, BMode: ref.Direct, B: 0}}}
			} else {
				step := uint64(1 + tp.Draw("cli.tpl.step", 7))
				w = ref.Warrior{Code: []ref.Ins{
					{Op: ref.ADD, Mod: ref.MAB, AMode: ref.Immediate, A: step, BMode: ref.Direct, B: 3},
					{Op: ref.MOV, Mod: ref.MI, AMode: ref.Direct, A: 2, BMode: ref.BIndirect, B: 2},
					{Op: ref.JMP, Mod: ref.MB, AMode: ref.Direct, A: rc.M - 2, BMode: ref.Direct, B: 0},
					{Op: ref.DAT, Mod: ref.MF, AMode: ref.Immediate, A: 0, BMode: ref.Immediate, B: 0}}}
			}
		}
		if i == 0 && L <= 300 && tp.Draw("cli.atlimit", 10) == 0 && int(rc.M) >= 3*L+1 {
			// a warrior exactly as long as the length limit must be accepted
			for len(w.Code) < L {
				w.Code = append(w.Code, ref.Ins{Op: ref.DAT, Mod: ref.MF, AMode: ref.Immediate, BMode: ref.Immediate})
			}
			res.stat("probe.warrior-exactly-at-length-limit", 1)
		}
		ws = append(ws, w)
		name := fmt.Sprintf("w%d.red", i+1)
		lines := ref.Canon(w, rc.M, is88, nil)
		// decoration that does not change the meaning: an unused EQU, and a
		// label that one operand is written relative to. Names come from a
		// tiny pool, so the two files of one invocation clash on purpose
		// (EQU in one file, label of the same name in the other).
		if tp.Draw("cli.decorate", 2) == 0 && len(w.Code) > 0 {
			pool := []string{"tgt", "x", "step"}
			nm := pool[tp.Draw("cli.deco.name", len(pool))]
			first := 0
			if !is88 {
				first = 1 // line 0 is ORG
			}
			if tp.Draw("cli.deco.kind", 2) == 0 {
				lines = append([]string{nm + " equ " + fmt.Sprint(1+tp.Draw("cli.deco.val", 9))}, lines...)
			} else {
				k := tp.Draw("cli.deco.label", len(w.Code)) // labelled instruction
				j := tp.Draw("cli.deco.user", len(w.Code))  // instruction whose A operand is written relative to it
				c := w.Code[j]
				rel := int64(k - j)
				v := int64(c.A) - rel
				op := c.Op.String()
				if !is88 {
					op += "." + c.Mod.String()
				}
				lines[first+j] = fmt.Sprintf("%s %s %s+%d, %s %d", op, c.AMode, nm, v, c.BMode, c.B)
				if v < 0 {
					lines[first+j] = fmt.Sprintf("%s %s %s-%d, %s %d", op, c.AMode, nm, -v, c.BMode, c.B)
				}
				if k == j {
					lines[first+j] = nm + " " + lines[first+j]
				} else {
					lines[first+k] = nm + " " + lines[first+k]
				}
			}
			res.stat("probe.decorated-source", 1)
		}
		text := strings.Join(lines, "\n") + "\n"
		must(os.WriteFile(filepath.Join(dir, name), []byte(text), 0o644))
		files = append(files, name)
	}
	rounds := 1
	if tp.Draw("cli.rounds", 2) == 0 {
		rounds = 1 + tp.Draw("cli.r", 5)
		args = append(args, "-r", strconv.Itoa(rounds))
	}
	random := nw > 1 && !usePreset && tp.Draw("cli.random", 3) == 0
	var place uint64
	if nw > 1 && !random {
		// fixed placement anywhere the two programs do not overlap
		lo := len(ws[0].Code)
		hi := int(rc.M) - len(ws[1].Code)
		if hi < lo {
			res.Discard = "no non-overlapping placement"
			return
		}
		place = uint64(lo + tp.Draw("cli.F", hi-lo+1))
		if sniper && int(sniperD) >= lo && int(sniperD) <= hi && tp.Draw("cli.sniper.aim", 4) != 0 {
			place = sniperD // the sitter stands where the bomb is aimed
		}
		if place == 0 {
			place = uint64(lo)
		}
		args = append(args, "-F", strconv.FormatUint(place, 10))
	}
	if random {
		args = append(args, "-debug")
		res.stat("probe.random-placement", 1)
	}
	randSeed := int64(1 + tp.Draw("cli.randseed", 1<<20))
	full := append(append([]string{}, args...), files...)
	res.Decoded = map[string]any{"kind": "cli", "args": full, "warriors": []string{}, "rand_seed": randSeed}
	for _, w := range ws {
		res.Decoded["warriors"] = append(res.Decoded["warriors"].([]string), warStr(w))
	}
	res.Hash = hashStr(fmt.Sprint(res.Decoded))
	res.NonTrivial = true

	r := runCLI(dir, full, randSeed)
	res.stat("cli-process-runs", 1)
	res.stat("fault.random-draws-served-by-simulator", int64(r.randDraws))
	if r.timedOut {
		res.add("C17", "C17 no-progress command did not finish", map[string]any{"args": full})
		return
	}
	if r.exit != 0 {
		res.add("C17", "C17 exit status not 0 for a valid invocation", map[string]any{"args": full, "exit": r.exit, "stderr": tail(r.stderr, 1500), "stdout": tail(r.stdout, 500)})
		return
	}
	var want tally
	out := r.stdout
	if random {
		// observe the placements from the event stream
		sp := reSpawn.FindAllStringSubmatch(out, -1)
		var places []uint64
		for _, m := range sp {
			if m[1] == "01" {
				v, _ := strconv.ParseUint(m[2], 10, 64)
				places = append(places, v)
			}
		}
		if len(sp) == 0 {
			// the -debug text is not part of the property: when the spawn
			// lines cannot be recognised the placements are unobservable and
			// only the tally's self-consistency is checked
			res.stat("probe.random-placement-unobservable", 1)
			lines := strings.Split(strings.TrimRight(out, "\n"), "\n")
			if len(lines) >= 2 {
				var a, b, c2, d int
				if n, _ := fmt.Sscanf(strings.Join(lines[len(lines)-2:], "\n")+"\n", "%d %d\n%d %d\n", &a, &b, &c2, &d); n == 4 && (a+c2+b != rounds || b != d) {
					res.add("C17", "C17 tally rounds are not counted exactly once (wins1+wins2+ties != rounds or ties differ)", map[string]any{"args": full, "stdout": tail(out, 200)})
				}
			}
			return
		}
		if len(places) != rounds {
			res.add("C17", "C17 number of battles run differs from the rounds asked for", map[string]any{"args": full, "rounds": rounds, "spawns_of_warrior_2": len(places)})
			return
		}
		distinct := map[uint64]bool{}
		for _, p := range places {
			want.add(refBattle(rc, ws, p))
			distinct[p] = true
		}
		res.stat("max.distinct-random-placements", int64(len(distinct)))
		lines := strings.Split(strings.TrimRight(out, "\n"), "\n")
		if len(lines) < 2 {
			res.add("C17", "C17 result lines missing", map[string]any{"args": full, "stdout": tail(out, 500)})
			return
		}
		out = strings.Join(lines[len(lines)-2:], "\n") + "\n"
		// same seed, same bytes
		r2 := runCLI(dir, full, randSeed)
		res.stat("cli-process-runs", 1)
		if r2.stdout != r.stdout {
			res.add("C17", "C17 nondeterminism same random seed gives different output", map[string]any{"args": full})
		}
	} else {
		flags := refBattle(rc, ws, place)
		for i := 0; i < rounds; i++ {
			want.add(flags)
		}
	}
	inDomain := rc.R <= rc.M && rc.W <= rc.M
	if !inDomain {
		// e.g. preset nop256 (limits 800 on a core of 256): what a read or
		// write limit above the core size means is not defined by the
		// properties; only the tally's self-consistency is checked
		res.stat("probe.config-outside-reference-domain", 1)
	}
	// compare the numbers, not the bytes: blanks and line-end style are not
	// part of the property
	norm := func(t string) string {
		var ls []string
		for _, l := range strings.Split(strings.ReplaceAll(t, "\r", ""), "\n") {
			if f := strings.Fields(l); len(f) > 0 {
				ls = append(ls, strings.Join(f, " "))
			}
		}
		if len(ls) > nw {
			ls = ls[len(ls)-nw:]
		}
		return strings.Join(ls, "\n") + "\n"
	}
	out = norm(out)
	if inDomain && out != want.text(nw) {
		what := "tallies differ from the battles the options describe"
		var a, b, c2, d int
		if n, _ := fmt.Sscanf(out, "%d %d\n%d %d\n", &a, &b, &c2, &d); nw == 2 && n == 4 {
			switch {
			case a+c2+b != rounds || b != d:
				what = "rounds are not counted exactly once (wins1+wins2+ties != rounds or ties differ)"
			case a == want.w2win && c2 == want.w1win && a != c2:
				what = "win counters of the two warriors are swapped"
			}
		}
		res.add("C17", "C17 tally "+what, map[string]any{"args": full, "stdout": out, "expected": want.text(nw), "warriors": res.Decoded["warriors"]})
	}
	if nw == 2 {
		var a, b, c2, d int
		if n, _ := fmt.Sscanf(out, "%d %d\n%d %d\n", &a, &b, &c2, &d); n == 4 {
			if a+c2+b != rounds || b != d {
				res.add("C17", "C17 tally rounds are not counted exactly once (wins1+wins2+ties != rounds or ties differ)", map[string]any{"args": full, "stdout": out})
			}
		}
	}
	return
}

func init() {
	register(&PropSpec{ID: "C17", Engine: "cli", Fn: caseCLI, Quick: 60000, Thorough: 1500000, Level: "exploration",
		Rule:   "a case = 1..2 by-construction warriors written as explicit source files + a flag vector over -s -p -c -l -8 -r -F -preset (flag order drawn, core size >= 3*length+1) + either a fixed non-overlapping placement or random placement with the random source served by the simulator's seed; the freshly built cmd/gmars binary is run as a child process; stdout must equal the tallies the reference MARS computes (random placement: at the placements observed in the -debug event stream), exit status 0, and the same seed must reproduce stdout byte for byte; non-trivial = every case; distinct = distinct (arguments, warriors, seed)",
		Real:   []string{"cmd/gmars binary (flag parsing, file reading, assembler, simulator, tally and printing)", "files on disk"},
		Stubs:  []string{"math/rand (simrand shim seeded by the simulator, draws logged)"},
		Assume: []string{"'-preset name' means the configuration gmars.PresetConfig(name) returns (DESIGN.md 8.3)", "process-level simulation: the only nondeterminism is the random source"}})
}
