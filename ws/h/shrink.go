package h

import (
	"testing"
	"time"

	"vws/simrt"
)

// minimise shrinks a failing tape while the same violation (property and
// signature) persists. Generic over engines: it only edits the tape (delete
// blocks = drop operations / faults / lines; lower values = simpler choices,
// earlier schedule picks).
func minimise(t *testing.T, fn CaseFn, c *Ctx, tape []int, target Violation, maxEvals int, maxDur time.Duration) (best []int, decoded map[string]any, detail map[string]any, evals int) {
	deadline := time.Now().Add(maxDur)
	over := func() bool { return evals >= maxEvals || time.Now().After(deadline) }
	try := func(cand []int) ([]int, map[string]any, map[string]any, bool) {
		evals++
		tp := simrt.ReplayTape(cand)
		r := fn(t, tp, c)
		if r.Infra != "" || r.Discard != "" {
			return nil, nil, nil, false
		}
		for _, v := range r.Viol {
			if v.Prop == target.Prop && v.Sig == target.Sig {
				vals := tp.Values()
				return vals, r.Decoded, v.Detail, true
			}
		}
		return nil, nil, nil, false
	}
	best = tape
	if b, d, dt, ok := try(best); ok {
		best, decoded, detail = b, d, dt
	} else {
		return tape, nil, nil, evals
	}
	less := func(a, b []int) bool {
		if len(a) != len(b) {
			return len(a) < len(b)
		}
		for i := range a {
			if a[i] != b[i] {
				return a[i] < b[i]
			}
		}
		return false
	}
	improved := true
	for improved && !over() {
		improved = false
		// delete blocks
		for k := len(best) / 2; k >= 1 && !over(); k /= 2 {
			for i := 0; i+k <= len(best) && !over(); {
				cand := append(append([]int{}, best[:i]...), best[i+k:]...)
				if b, d, dt, ok := try(cand); ok && less(b, best) {
					best, decoded, detail = b, d, dt
					improved = true
				} else {
					i += k
				}
			}
		}
		// zero blocks
		for k := 8; k >= 1 && !over(); k /= 2 {
			for i := 0; i+k <= len(best) && !over(); i += k {
				allZero := true
				for _, v := range best[i : i+k] {
					if v != 0 {
						allZero = false
					}
				}
				if allZero {
					continue
				}
				cand := append([]int{}, best...)
				for j := i; j < i+k; j++ {
					cand[j] = 0
				}
				if b, d, dt, ok := try(cand); ok && less(b, best) {
					best, decoded, detail = b, d, dt
					improved = true
				}
			}
		}
		// lower single values
		for i := 0; i < len(best) && !over(); i++ {
			for best[i] > 0 && !over() {
				v := best[i]
				lowered := false
				for _, nv := range []int{v / 2, v - 1} {
					if nv >= v || nv < 0 {
						continue
					}
					cand := append([]int{}, best...)
					cand[i] = nv
					if b, d, dt, ok := try(cand); ok && less(b, best) {
						best, decoded, detail = b, d, dt
						improved, lowered = true, true
						break
					}
				}
				if !lowered || i >= len(best) {
					break
				}
			}
		}
	}
	return best, decoded, detail, evals
}
