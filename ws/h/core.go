// Package h is the verification harness: engines, oracles, worker pool,
// minimiser, replay and evidence writer. It is compiled as a test binary
// (testing/synctest needs a *testing.T) and re-executes itself in roles.
package h

import (
	"encoding/json"
	"fmt"
	"hash/fnv"
	"os"
	"sort"
	"testing"

	"vws/simrt"
)

// Violation is one oracle failure found in a case.
type Violation struct {
	Prop   string         `json:"property"`
	Sig    string         `json:"signature"`
	Detail map[string]any `json:"detail,omitempty"`
}

// Result of running one case.
type Result struct {
	Viol       []Violation
	Discard    string         // non-empty: case is outside the property's domain (reason)
	Infra      string         // non-empty: infrastructure failure (exit 2)
	Decoded    map[string]any // human-readable case
	Hash       uint64         // hash of the decoded case, for distinct counting
	NonTrivial bool
	Stats      map[string]int64
	Abort      bool   // the process must be recycled after this case (a runaway goroutine of the untouched copy)
	SchedHash  uint64 // hash of the schedule trace(s)
	StateHash  []uint64
	Orders     []uint64 // cross-task site orderings observed (asm/multi engines)
}

func (r *Result) add(prop, sig string, detail map[string]any) {
	for _, v := range r.Viol {
		if v.Prop == prop && v.Sig == sig {
			return
		}
	}
	r.Viol = append(r.Viol, Violation{prop, sig, detail})
}

func (r *Result) stat(k string, n int64) {
	if r.Stats == nil {
		r.Stats = map[string]int64{}
	}
	if len(k) > 4 && k[:4] == "max." {
		if n > r.Stats[k] {
			r.Stats[k] = n
		}
		return
	}
	r.Stats[k] += n
}

func (r *Result) has(prop, sig string) bool {
	for _, v := range r.Viol {
		if v.Prop == prop && v.Sig == sig {
			return true
		}
	}
	return false
}

// Ctx is the per-run context handed to case functions.
type Ctx struct {
	Prop   string
	Tier   string
	Engine string
	Replay bool
}

// CaseFn runs one case from a tape.
type CaseFn func(t *testing.T, tp *simrt.Tape, c *Ctx) Result

// PropSpec describes how a property is checked.
type PropSpec struct {
	ID        string
	Engine    string
	Fn        CaseFn
	Quick     int // number of cases
	Thorough  int
	Level     string
	Rule      string
	Real      []string
	Stubs     []string
	Assume    []string
	Race      bool            // needs the -race binary as well
	ExtraTier func(d *driver) // optional extra work in the driver (e.g. stress)
}

var props = map[string]*PropSpec{}

func register(p *PropSpec) { props[p.ID] = p }

func hashStr(s string) uint64 {
	h := fnv.New64a()
	h.Write([]byte(s))
	return h.Sum64()
}

func hashJSON(v any) uint64 {
	b, _ := json.Marshal(v)
	h := fnv.New64a()
	h.Write(b)
	return h.Sum64()
}

// ReplayFile is the on-disk form of a failing (or sampled) case.
type ReplayFile struct {
	Property  string         `json:"property"`
	Engine    string         `json:"engine"`
	Tier      string         `json:"tier"`
	Seed      uint64         `json:"seed"`
	Case      uint64         `json:"case"`
	Tape      []int          `json:"tape"`
	Labels    []string       `json:"labels,omitempty"`
	Decoded   map[string]any `json:"decoded,omitempty"`
	Verdict   string         `json:"verdict"`
	Signature string         `json:"signature"`
	Detail    map[string]any `json:"detail,omitempty"`
	MinFrom   int            `json:"minimised_from_tape_len,omitempty"`
	MinEvals  int            `json:"minimiser_evaluations,omitempty"`
	Note      string         `json:"note,omitempty"`
	Prelude   *Prelude       `json:"prelude,omitempty"`
}

// Prelude names the cases that ran in the same process before the recorded
// one: needed when the verdict depends on state that survives between calls.
type Prelude struct {
	Worker   int64 `json:"worker"`
	NWorkers int64 `json:"nworkers"`
	From     int64 `json:"from"`
}

// Failure is what a worker reports for a violating case.
type Failure struct {
	Viol     Violation      `json:"viol"`
	Case     uint64         `json:"case"`
	Tape     []int          `json:"tape"`
	Labels   []string       `json:"labels,omitempty"`
	Decoded  map[string]any `json:"decoded,omitempty"`
	MinFrom  int            `json:"min_from"`
	MinEvals int            `json:"min_evals"`
	Count    int64          `json:"count"`
	Unstable bool           `json:"unstable,omitempty"` // found outside the deterministic core: not replay-verified
	Worker   int64          `json:"worker"`
	NWorkers int64          `json:"nworkers"`
	From     int64          `json:"from"`
}

// WorkerReport is written by each worker process.
type WorkerReport struct {
	Worker     int              `json:"worker"`
	Cases      int64            `json:"cases"`
	Discards   map[string]int64 `json:"discards"`
	Stats      map[string]int64 `json:"stats"`
	MaxStats   map[string]int64 `json:"max_stats"`
	Failures   []Failure        `json:"failures"`
	Infra      []string         `json:"infra"`
	Hashes     []uint64         `json:"hashes"` // distinct non-trivial case hashes
	Scheds     []uint64         `json:"scheds"` // distinct schedule hashes
	States     []uint64         `json:"states"` // distinct state hashes
	Orders     []uint64         `json:"orders"` // distinct cross-task site orderings
	Samples    []map[string]any `json:"samples"`
	WallS      float64          `json:"wall_s"`
	Done       bool             `json:"done"`
	AbortAt    int64            `json:"abort_at"` // >=0: the worker stopped after this case and must be relaunched
	NonTrivial int64            `json:"nontrivial"`
}

func writeJSON(path string, v any) error {
	b, err := json.MarshalIndent(v, "", " ")
	if err != nil {
		return err
	}
	tmp := path + ".tmp"
	if err := os.WriteFile(tmp, b, 0o644); err != nil {
		return err
	}
	return os.Rename(tmp, path)
}

func sortedKeys[V any](m map[string]V) []string {
	ks := make([]string, 0, len(m))
	for k := range m {
		ks = append(ks, k)
	}
	sort.Strings(ks)
	return ks
}

func mergeMax(dst map[string]int64, k string, v int64) {
	if cur, ok := dst[k]; !ok || v > cur {
		dst[k] = v
	}
}

func must(err error) {
	if err != nil {
		fmt.Fprintf(os.Stderr, "harness: %v\n", err)
		os.Exit(2)
	}
}
