package ref

import (
	"fmt"
	"testing"
)

// Hand-computed expectations: the only place where expected values are typed
// in by hand (from the ICWS'94 draft's prose and the classic imp/dwarf traces).

func cell(op Op, mod Mod, am Mode, a uint64, bm Mode, b uint64) Ins {
	return Ins{Op: op, Mod: mod, AMode: am, A: a, BMode: bm, B: b}
}

func newBattle(cfg Config, off uint64, code ...Ins) *Mars {
	m := NewMars(cfg)
	m.AddWarrior(Warrior{Code: code})
	m.Spawn(0, off)
	return m
}

func TestFold(t *testing.T) {
	// ICWS'94 draft 5.6: result = pointer % limit; if result > limit/2 then result += M - limit
	cases := []struct{ p, l, m, want uint64 }{
		{251, 500, 8000, 7751}, {250, 500, 8000, 250}, {499, 500, 8000, 7999}, {500, 500, 8000, 0},
		{7999, 8000, 8000, 7999}, {5, 1, 8, 0}, {3, 2, 8, 1}, {2, 2, 8, 0}, {7, 3, 8, 1}, {5, 3, 8, 7},
		{100, 9000, 8000, 100}, // a limit above the core size has no effect
	}
	for _, c := range cases {
		if got := fold(c.p, c.l, c.m); got != c.want {
			t.Errorf("fold(%d,%d,%d)=%d want %d", c.p, c.l, c.m, got, c.want)
		}
	}
}

func TestImp(t *testing.T) {
	cfg := Config{M: 8, P: 4, C: 100, R: 8, W: 8}
	imp := cell(MOV, MI, Direct, 0, Direct, 1)
	m := newBattle(cfg, 6, imp)
	for i := 0; i < 5; i++ {
		m.RunCycle()
	}
	// started at 6: copies itself to 7, 0, 1, 2, 3; next task at 3
	for _, a := range []uint64{6, 7, 0, 1, 2, 3} {
		if m.Core[a] != imp {
			t.Errorf("cell %d = %v", a, m.Core[a])
		}
	}
	if fmt.Sprint(m.Wars[0].Queue) != "[3]" || m.Cycle != 5 || m.Living != 1 {
		t.Errorf("queue %v cycle %d living %d", m.Wars[0].Queue, m.Cycle, m.Living)
	}
}

func TestDwarf(t *testing.T) {
	// ADD #4, 3 ; MOV 2, @2 ; JMP -2 ; DAT #0, #0   (modifiers as the '94 defaults give them)
	M := uint64(8000)
	cfg := Config{M: M, P: 8000, C: 100, R: M, W: M}
	m := newBattle(cfg, 0,
		cell(ADD, MAB, Immediate, 4, Direct, 3),
		cell(MOV, MI, Direct, 2, BIndirect, 2),
		cell(JMP, MB, Direct, M-2, Direct, 0),
		cell(DAT, MF, Immediate, 0, Immediate, 0))
	for i := 0; i < 3; i++ {
		m.RunCycle()
	}
	if m.Core[3].B != 4 {
		t.Errorf("bomb pointer %d", m.Core[3].B)
	}
	want := cell(DAT, MF, Immediate, 0, Immediate, 4)
	if m.Core[7] != want {
		t.Errorf("bomb at 7: %v", m.Core[7])
	}
	if fmt.Sprint(m.Wars[0].Queue) != "[0]" {
		t.Errorf("queue %v", m.Wars[0].Queue)
	}
	for i := 0; i < 3; i++ {
		m.RunCycle()
	}
	if m.Core[11] != cell(DAT, MF, Immediate, 0, Immediate, 8) {
		t.Errorf("second bomb: %v", m.Core[11])
	}
}

func TestSplOrderAndLimit(t *testing.T) {
	spl := cell(SPL, MB, Direct, 0, Direct, 0)
	m := newBattle(Config{M: 8, P: 2, C: 10, R: 8, W: 8}, 0, spl)
	m.RunCycle()
	if fmt.Sprint(m.Wars[0].Queue) != "[1 0]" { // fall-through first, then the new task
		t.Errorf("P=2 queue %v", m.Wars[0].Queue)
	}
	m = newBattle(Config{M: 8, P: 1, C: 10, R: 8, W: 8}, 0, spl)
	m.RunCycle()
	if fmt.Sprint(m.Wars[0].Queue) != "[1]" { // the new task is the one dropped
		t.Errorf("P=1 queue %v", m.Wars[0].Queue)
	}
	// P=3: [1 0] -> pop 1 (DAT 0,0: dies) -> [0] -> pop 0: SPL -> [1 0]
	m = newBattle(Config{M: 8, P: 3, C: 10, R: 8, W: 8}, 0, spl)
	m.RunCycle()
	m.RunCycle()
	if fmt.Sprint(m.Wars[0].Queue) != "[0]" {
		t.Errorf("after task death %v", m.Wars[0].Queue)
	}
}

func TestPredecPostincOrder(t *testing.T) {
	// MOV.I }1, <2 at 0 ; cell1 = DAT $3,$5 ; cell2 = DAT $0,$2 ; M=10
	// A operand: } via cell 1 A-field (3): source = cell (1+3)=4, then cell1.A becomes 4
	// B operand: < via cell 2 B-field: decremented first 2->1, target = cell (2+1)=3
	m := newBattle(Config{M: 10, P: 4, C: 10, R: 10, W: 10}, 0,
		cell(MOV, MI, APostinc, 1, BPredec, 2),
		cell(DAT, MF, Direct, 3, Direct, 5),
		cell(DAT, MF, Direct, 0, Direct, 2),
		cell(DAT, MF, Direct, 7, Direct, 7),
		cell(NOP, MF, Direct, 9, Direct, 9))
	m.Events = nil
	m.RunCycle()
	if m.Core[1].A != 4 || m.Core[2].B != 1 {
		t.Errorf("side effects: cell1.A=%d cell2.B=%d", m.Core[1].A, m.Core[2].B)
	}
	if m.Core[3] != cell(NOP, MF, Direct, 9, Direct, 9) {
		t.Errorf("target %v", m.Core[3])
	}
	var evs []string
	for _, e := range m.Events {
		evs = append(evs, e.String())
	}
	want := "[cycle-start(w-1,0) exec(w0,0) inc(w0,1) dec(w0,2) write(w0,3) cycle-end(w-1,0)]"
	if fmt.Sprint(evs) != want {
		t.Errorf("events %v", evs)
	}
}

func TestPostincSeesOwnPredec(t *testing.T) {
	// A operand completely before B operand: MOV.AB {1, >1 ; cell1 = DAT $0, $0 ; M=8
	// A: cell1.A 0 -> 7 ; pointer 1+7 = 8 = 0 -> IRA = the MOV itself (A number 1)
	// B: > via cell1.B (0): target cell 1 ; then cell1.B -> 1 ; MOV.AB writes IRA.A (1) into target.B
	// order: B post-increment happens when the B operand is evaluated, before the write: B = 1 then overwritten with 1
	m := newBattle(Config{M: 8, P: 4, C: 10, R: 8, W: 8}, 0,
		cell(MOV, MAB, APredec, 1, BPostinc, 1),
		cell(DAT, MF, Direct, 0, Direct, 0))
	m.RunCycle()
	if m.Core[1].A != 7 || m.Core[1].B != 1 {
		t.Errorf("cell1 = %v", m.Core[1])
	}
}

func TestDivByZero(t *testing.T) {
	// DIV.F $1, $2 ; cell1 = DAT $0,$3 ; cell2 = DAT $8,$9 : A divisor 0 -> A untouched, B = 9/3 = 3, task dies
	m := newBattle(Config{M: 16, P: 4, C: 10, R: 16, W: 16}, 0,
		cell(DIV, MF, Direct, 1, Direct, 2),
		cell(DAT, MF, Direct, 0, Direct, 3),
		cell(DAT, MF, Direct, 8, Direct, 9))
	m.RunCycle()
	if m.Core[2].A != 8 || m.Core[2].B != 3 {
		t.Errorf("cell2 %v", m.Core[2])
	}
	if m.Living != 0 || m.Wars[0].State != StDead {
		t.Errorf("warrior should be dead")
	}
	// MOD.AB #5, $1 ; cell1 = DAT $0, $13 -> B = 13 % 5 = 3, alive
	m = newBattle(Config{M: 16, P: 4, C: 10, R: 16, W: 16}, 0,
		cell(MOD, MAB, Immediate, 5, Direct, 1),
		cell(DAT, MF, Direct, 0, Direct, 13))
	m.RunCycle()
	if m.Core[1].B != 3 || m.Living != 1 {
		t.Errorf("mod: %v living %d", m.Core[1], m.Living)
	}
}

func TestDjnUsesCopy(t *testing.T) {
	// DJN.B $0, $1 ; cell1 = DAT $0,$1 : decrement 1 -> 0, no jump -> next is 1
	m := newBattle(Config{M: 8, P: 4, C: 10, R: 8, W: 8}, 0,
		cell(DJN, MB, Direct, 0, Direct, 1),
		cell(DAT, MF, Direct, 0, Direct, 1))
	m.RunCycle()
	if m.Core[1].B != 0 || fmt.Sprint(m.Wars[0].Queue) != "[1]" {
		t.Errorf("djn to zero: %v %v", m.Core[1], m.Wars[0].Queue)
	}
	// from 0: wraps to M-1, non-zero -> jump to A target (0)
	m = newBattle(Config{M: 8, P: 4, C: 10, R: 8, W: 8}, 0,
		cell(DJN, MB, Direct, 0, Direct, 1),
		cell(DAT, MF, Direct, 0, Direct, 0))
	m.RunCycle()
	if m.Core[1].B != 7 || fmt.Sprint(m.Wars[0].Queue) != "[0]" {
		t.Errorf("djn through zero: %v %v", m.Core[1], m.Wars[0].Queue)
	}
}

func TestSkipsAndJumps(t *testing.T) {
	cfg := Config{M: 8, P: 4, C: 10, R: 8, W: 8}
	q := func(code ...Ins) string {
		m := newBattle(cfg, 0, code...)
		m.RunCycle()
		return fmt.Sprint(m.Wars[0].Queue)
	}
	d := func(a, b uint64) Ins { return cell(DAT, MF, Direct, a, Direct, b) }
	if got := q(cell(SEQ, MI, Direct, 1, Direct, 2), d(3, 4), d(3, 4)); got != "[2]" {
		t.Errorf("seq.i equal: %s", got)
	}
	if got := q(cell(SEQ, MI, Direct, 1, Direct, 2), d(3, 4), cell(DAT, MF, Immediate, 3, Direct, 4)); got != "[1]" {
		t.Errorf("seq.i mode differs: %s", got)
	}
	if got := q(cell(SNE, MX, Direct, 1, Direct, 2), d(3, 4), d(4, 3)); got != "[1]" {
		t.Errorf("sne.x crossed equal: %s", got)
	}
	if got := q(cell(SLT, MAB, Immediate, 3, Direct, 1), d(0, 4)); got != "[2]" {
		t.Errorf("slt.ab 3<4: %s", got)
	}
	if got := q(cell(SLT, MF, Direct, 1, Direct, 2), d(1, 5), d(2, 5)); got != "[1]" {
		t.Errorf("slt.f needs both: %s", got)
	}
	if got := q(cell(JMZ, MF, Direct, 3, Direct, 1), d(0, 0)); got != "[3]" {
		t.Errorf("jmz.f both zero: %s", got)
	}
	if got := q(cell(JMZ, MF, Direct, 3, Direct, 1), d(0, 1)); got != "[1]" {
		t.Errorf("jmz.f one non-zero: %s", got)
	}
	if got := q(cell(JMN, MF, Direct, 3, Direct, 1), d(0, 1)); got != "[3]" {
		t.Errorf("jmn.f either non-zero: %s", got)
	}
	if got := q(cell(JMN, MBA, Direct, 3, Direct, 1), d(0, 1)); got != "[1]" {
		t.Errorf("jmn.ba tests the A number: %s", got)
	}
}

func TestArithmeticModulo(t *testing.T) {
	cfg := Config{M: 10, P: 4, C: 10, R: 10, W: 10}
	run := func(i Ins, src, dst Ins) Ins {
		m := newBattle(cfg, 0, i, src, dst)
		m.RunCycle()
		return m.Core[2]
	}
	d := func(a, b uint64) Ins { return cell(DAT, MF, Direct, a, Direct, b) }
	if got := run(cell(SUB, MF, Direct, 1, Direct, 2), d(3, 9), d(1, 2)); got.A != 8 || got.B != 3 {
		t.Errorf("sub.f: %v", got) // 1-3 = -2 = 8 ; 2-9 = -7 = 3
	}
	if got := run(cell(MUL, MX, Direct, 1, Direct, 2), d(3, 4), d(5, 6)); got.A != 0 || got.B != 8 {
		t.Errorf("mul.x: %v", got) // A = 5*4 = 20 = 0 ; B = 6*3 = 18 = 8
	}
	if got := run(cell(ADD, MBA, Direct, 1, Direct, 2), d(3, 4), d(9, 6)); got.A != 3 || got.B != 6 {
		t.Errorf("add.ba: %v", got) // A = 9+4 = 13 = 3
	}
}

func TestBattleEndRules(t *testing.T) {
	cfg := Config{M: 16, P: 4, C: 5, R: 16, W: 16}
	imp := cell(MOV, MI, Direct, 0, Direct, 1)
	dat := cell(DAT, MF, Direct, 0, Direct, 0)
	m := NewMars(cfg)
	m.AddWarrior(Warrior{Code: []Ins{dat}})
	m.AddWarrior(Warrior{Code: []Ins{imp}})
	m.Spawn(0, 0)
	m.Spawn(1, 8)
	flags, strict := m.Run()
	// warrior 0 dies in cycle 0, one survivor remains: the cycle is cut short
	if !strict || fmt.Sprint(flags) != "[false true]" || m.Cycle != 0 || fmt.Sprint(m.Wars[1].Queue) != "[8]" {
		t.Errorf("flags %v cycle %d queue %v", flags, m.Cycle, m.Wars[1].Queue)
	}
	// lone warrior runs to the cycle limit
	m = newBattle(cfg, 0, imp)
	flags, _ = m.Run()
	if fmt.Sprint(flags) != "[true]" || m.Cycle != 5 {
		t.Errorf("lone imp: %v %d", flags, m.Cycle)
	}
	// lone warrior dies: completed cycle counted
	m = newBattle(cfg, 0, dat)
	flags, _ = m.Run()
	if fmt.Sprint(flags) != "[false]" || m.Cycle != 1 {
		t.Errorf("lone dat: %v %d", flags, m.Cycle)
	}
}

func TestLimitsFoldOperands(t *testing.T) {
	// M=20, R=W=4: MOV.I $0, $3 -> fold(3,4,20): 3%4=3 > 2 -> 3+16 = 19 -> writes to cell 19 (= -1)
	cfg := Config{M: 20, P: 4, C: 5, R: 4, W: 4}
	mov := cell(MOV, MI, Direct, 0, Direct, 3)
	m := newBattle(cfg, 5, mov)
	m.RunCycle()
	if m.Core[4] != mov {
		t.Errorf("write not folded to PC-1: %v", m.Core[4])
	}
	// read limit 4, write limit 20: JMP $6 -> fold(6,4,20) = 2 -> next PC = 5+2
	cfg = Config{M: 20, P: 4, C: 5, R: 4, W: 20}
	m = newBattle(cfg, 5, cell(JMP, MB, Direct, 6, Direct, 0))
	m.RunCycle()
	if fmt.Sprint(m.Wars[0].Queue) != "[7]" {
		t.Errorf("jump target %v", m.Wars[0].Queue)
	}
}

func TestLegal88Table(t *testing.T) {
	ok := func(i Ins) bool { b, _ := Legal88(i); return b }
	if !ok(cell(MOV, MI, Immediate, 0, Direct, 1)) || ok(cell(MOV, MI, Direct, 0, Immediate, 1)) {
		t.Error("MOV")
	}
	if !ok(cell(DAT, MF, Immediate, 0, BPredec, 1)) || ok(cell(DAT, MF, Direct, 0, Immediate, 1)) {
		t.Error("DAT")
	}
	if !ok(cell(JMP, MB, Direct, 0, Immediate, 1)) || ok(cell(JMP, MB, Immediate, 0, Direct, 1)) {
		t.Error("JMP")
	}
	if !ok(cell(SLT, MB, Direct, 0, Immediate, 1)) { // tolerated, as the suite documents
		t.Error("SLT #B")
	}
	if ok(cell(MUL, MF, Direct, 0, Direct, 1)) || ok(cell(MOV, MI, AIndirect, 0, Direct, 1)) {
		t.Error("'94-only material")
	}
	if _, mod := Legal88(cell(ADD, 0, Direct, 0, Direct, 1)); mod != MF {
		t.Error("ADD implied modifier")
	}
	if _, mod := Legal88(cell(CMP, 0, Immediate, 0, Direct, 1)); mod != MAB {
		t.Error("CMP #A implied modifier")
	}
}

func TestClassifyLoadFile(t *testing.T) {
	lines, certain := ClassifyLoadFile([]byte(";redcode\nORG 1\nMOV.I $ 0, $ 1 ; x\n\n  \t\nDAT.F # 0, # 0\nEND\ngarbage after end"))
	var cls []LineClass
	for _, l := range lines {
		cls = append(cls, l.Class)
	}
	if !certain || fmt.Sprint(cls) != fmt.Sprint([]LineClass{LComment, LDirective, LInstructionShaped, LBlank, LBlank, LInstructionShaped, LDirective, LAfterEnd}) {
		t.Errorf("%v %v", cls, certain)
	}
}
