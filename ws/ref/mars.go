package ref

import "fmt"

// Config of a reference MARS. A read or write limit >= M has no effect.
type Config struct {
	M uint64 // core size
	P uint64 // process limit per warrior
	C uint64 // cycle limit
	R uint64 // read limit
	W uint64 // write limit
}

// EvKind enumerates the reference event stream.
type EvKind uint8

const (
	EvExec EvKind = iota
	EvDec
	EvInc
	EvWrite
	EvWriteAttempt // DIV/MOD by zero: target named although nothing (or only one field) was written
	EvTaskDeath
	EvWarDeath
	EvCycleStart
	EvCycleEnd
	EvSpawn
	EvReset
)

var evNames = [...]string{"exec", "dec", "inc", "write", "write-attempt", "task-death", "warrior-death", "cycle-start", "cycle-end", "spawn", "reset"}

func (k EvKind) String() string { return evNames[k] }

type Event struct {
	Kind    EvKind
	W       int
	Addr    uint64
	Cycle   uint64
	Changed bool // the cell's content differs after the operation
}

func (e Event) String() string { return fmt.Sprintf("%s(w%d,%d)", e.Kind, e.W, e.Addr) }

const (
	StAdded = iota
	StAlive
	StDead
)

type RWar struct {
	Data    Warrior
	State   int
	Queue   []uint64
	Spawned bool // spawned since the last reset
}

// Mars is the reference machine plus the call-level state machine around it.
type Mars struct {
	Cfg    Config
	Core   []Ins
	Cycle  uint64
	Wars   []*RWar
	Living int
	Events []Event // appended to by every call; the caller truncates
	// zone tracking
	Executed bool // some cycle ran since the last reset
	Mixed    bool // history left the well-formed shape since the last reset
}

func NewMars(cfg Config) *Mars {
	m := &Mars{Cfg: cfg}
	m.Core = make([]Ins, cfg.M)
	for i := range m.Core {
		m.Core[i] = ZeroCell()
	}
	return m
}

// ZeroCell is the initial content of every core cell: DAT.F $0, $0.
func ZeroCell() Ins { return Ins{Op: DAT, Mod: MF, AMode: Direct, BMode: Direct} }

func (m *Mars) emit(k EvKind, w int, a uint64) {
	m.Events = append(m.Events, Event{k, w, a, m.Cycle, k == EvDec || k == EvInc})
}

func (m *Mars) emitWrite(k EvKind, w int, a uint64, before Ins) {
	m.Events = append(m.Events, Event{k, w, a, m.Cycle, before != m.Core[a]})
}

func fold(p, limit, M uint64) uint64 {
	if limit >= M {
		return p % M
	}
	r := p % limit
	if r > limit/2 {
		r += M - limit
	}
	return r
}

func (m *Mars) push(w *RWar, a uint64) {
	if uint64(len(w.Queue)) < m.Cfg.P {
		w.Queue = append(w.Queue, a)
	}
}

func (m *Mars) operand(wi int, mode Mode, num uint64, pc uint64) (rp, wp uint64, cp Ins) {
	M, R, W := m.Cfg.M, m.Cfg.R, m.Cfg.W
	var pip uint64
	post := false
	if mode != Immediate {
		rp = fold(num, R, M)
		wp = fold(num, W, M)
		if mode != Direct {
			useA := mode == AIndirect || mode == APredec || mode == APostinc
			t := (pc + wp) % M
			if mode == APredec || mode == BPredec {
				if useA {
					m.Core[t].A = (m.Core[t].A + M - 1) % M
				} else {
					m.Core[t].B = (m.Core[t].B + M - 1) % M
				}
				m.emit(EvDec, wi, t)
			}
			if mode == APostinc || mode == BPostinc {
				pip, post = t, true
			}
			rc := m.Core[(pc+rp)%M]
			wc := m.Core[(pc+wp)%M]
			if useA {
				rp = fold(rp+rc.A, R, M)
				wp = fold(wp+wc.A, W, M)
			} else {
				rp = fold(rp+rc.B, R, M)
				wp = fold(wp+wc.B, W, M)
			}
		}
	}
	cp = m.Core[(pc+rp)%M]
	if post {
		if mode == APostinc {
			m.Core[pip].A = (m.Core[pip].A + 1) % M
		} else {
			m.Core[pip].B = (m.Core[pip].B + 1) % M
		}
		m.emit(EvInc, wi, pip)
	}
	return
}

// step executes one task of warrior wi at pc.
func (m *Mars) step(wi int, pc uint64) {
	M := m.Cfg.M
	w := m.Wars[wi]
	m.emit(EvExec, wi, pc)
	ir := m.Core[pc]
	rpa, _, ira := m.operand(wi, ir.AMode, ir.A, pc)
	_, wpb, irb := m.operand(wi, ir.BMode, ir.B, pc)
	T := (pc + wpb) % M
	J := (pc + rpa) % M
	N := (pc + 1) % M
	S := (pc + 2) % M
	tc := &m.Core[T]
	before := *tc
	switch ir.Op {
	case DAT:
		m.emit(EvTaskDeath, wi, pc)
	case MOV:
		switch ir.Mod {
		case MA:
			tc.A = ira.A
		case MB:
			tc.B = ira.B
		case MAB:
			tc.B = ira.A
		case MBA:
			tc.A = ira.B
		case MF:
			tc.A, tc.B = ira.A, ira.B
		case MX:
			tc.B, tc.A = ira.A, ira.B
		case MI:
			*tc = ira
		}
		m.emitWrite(EvWrite, wi, T, before)
		m.push(w, N)
	case ADD, SUB, MUL:
		f := func(b, a uint64) uint64 {
			switch ir.Op {
			case ADD:
				return (b + a) % M
			case SUB:
				return (b + M - a) % M
			default:
				return (b * a) % M
			}
		}
		switch ir.Mod {
		case MA:
			tc.A = f(irb.A, ira.A)
		case MB:
			tc.B = f(irb.B, ira.B)
		case MAB:
			tc.B = f(irb.B, ira.A)
		case MBA:
			tc.A = f(irb.A, ira.B)
		case MF, MI:
			tc.A = f(irb.A, ira.A)
			tc.B = f(irb.B, ira.B)
		case MX:
			tc.B = f(irb.B, ira.A)
			tc.A = f(irb.A, ira.B)
		}
		m.emitWrite(EvWrite, wi, T, before)
		m.push(w, N)
	case DIV, MOD:
		f := func(b, a uint64) uint64 {
			if ir.Op == DIV {
				return b / a
			}
			return b % a
		}
		ok := true
		wrote := false
		set := func(dst *uint64, b, a uint64) {
			if a == 0 {
				ok = false
				return
			}
			*dst = f(b, a)
			wrote = true
		}
		switch ir.Mod {
		case MA:
			set(&tc.A, irb.A, ira.A)
		case MB:
			set(&tc.B, irb.B, ira.B)
		case MAB:
			set(&tc.B, irb.B, ira.A)
		case MBA:
			set(&tc.A, irb.A, ira.B)
		case MF, MI:
			set(&tc.A, irb.A, ira.A)
			set(&tc.B, irb.B, ira.B)
		case MX:
			set(&tc.B, irb.B, ira.A)
			set(&tc.A, irb.A, ira.B)
		}
		if wrote {
			m.emitWrite(EvWrite, wi, T, before)
		} else {
			m.emit(EvWriteAttempt, wi, T)
		}
		if ok {
			m.push(w, N)
		} else {
			m.emit(EvTaskDeath, wi, pc)
		}
	case JMP:
		m.push(w, J)
	case JMZ, JMN:
		var zero bool
		switch ir.Mod {
		case MA, MBA:
			zero = irb.A == 0
		case MB, MAB:
			zero = irb.B == 0
		default:
			zero = irb.A == 0 && irb.B == 0
		}
		if (ir.Op == JMZ) == zero {
			m.push(w, J)
		} else {
			m.push(w, N)
		}
	case DJN:
		var nz bool
		switch ir.Mod {
		case MA, MBA:
			tc.A = (tc.A + M - 1) % M
			irb.A = (irb.A + M - 1) % M
			nz = irb.A != 0
		case MB, MAB:
			tc.B = (tc.B + M - 1) % M
			irb.B = (irb.B + M - 1) % M
			nz = irb.B != 0
		default:
			tc.A = (tc.A + M - 1) % M
			irb.A = (irb.A + M - 1) % M
			tc.B = (tc.B + M - 1) % M
			irb.B = (irb.B + M - 1) % M
			nz = irb.A != 0 || irb.B != 0
		}
		m.emit(EvDec, wi, T)
		if nz {
			m.push(w, J)
		} else {
			m.push(w, N)
		}
	case CMP, SEQ, SNE:
		var eq bool
		switch ir.Mod {
		case MA:
			eq = ira.A == irb.A
		case MB:
			eq = ira.B == irb.B
		case MAB:
			eq = ira.A == irb.B
		case MBA:
			eq = ira.B == irb.A
		case MF:
			eq = ira.A == irb.A && ira.B == irb.B
		case MX:
			eq = ira.A == irb.B && ira.B == irb.A
		case MI:
			eq = ira == irb
		}
		if eq == (ir.Op != SNE) {
			m.push(w, S)
		} else {
			m.push(w, N)
		}
	case SLT:
		var lt bool
		switch ir.Mod {
		case MA:
			lt = ira.A < irb.A
		case MB:
			lt = ira.B < irb.B
		case MAB:
			lt = ira.A < irb.B
		case MBA:
			lt = ira.B < irb.A
		case MF, MI:
			lt = ira.A < irb.A && ira.B < irb.B
		case MX:
			lt = ira.A < irb.B && ira.B < irb.A
		}
		if lt {
			m.push(w, S)
		} else {
			m.push(w, N)
		}
	case SPL:
		m.push(w, N)
		m.push(w, J)
	case NOP:
		m.push(w, N)
	}
}

// cycle runs one round; precondition Cycle < C and Living >= 1.
func (m *Mars) cycle() {
	n := len(m.Wars)
	m.emit(EvCycleStart, -1, 0)
	m.Executed = true
	for wi, w := range m.Wars {
		if w.State == StAdded {
			m.Mixed = true
		}
		if w.State != StAlive {
			continue
		}
		pc := w.Queue[0]
		w.Queue = w.Queue[1:]
		m.step(wi, pc)
		if len(w.Queue) == 0 {
			m.emit(EvWarDeath, wi, pc)
			w.State = StDead
			m.Living--
			if n > 1 && m.Living == 1 {
				return
			}
		}
	}
	m.emit(EvCycleEnd, -1, 0)
	m.Cycle++
}

// ---- call-level state machine (appendix B of DESIGN.md) --------------------

// AddWarrior appends a deep copy; returns its index.
func (m *Mars) AddWarrior(d Warrior) int {
	cp := Warrior{Start: d.Start, Code: append([]Ins{}, d.Code...)}
	m.Wars = append(m.Wars, &RWar{Data: cp, State: StAdded})
	if m.Executed {
		m.Mixed = true
	}
	return len(m.Wars) - 1
}

// Spawn returns false when the call cannot apply.
func (m *Mars) Spawn(i int, off uint64) bool {
	if i < 0 || i >= len(m.Wars) {
		return false
	}
	w := m.Wars[i]
	if w.State == StAlive {
		return false
	}
	if m.Executed {
		m.Mixed = true
	}
	M := m.Cfg.M
	for j, c := range w.Data.Code {
		m.Core[(off%M+uint64(j))%M] = c
	}
	start := uint64(0)
	if w.Data.Start > 0 {
		start = uint64(w.Data.Start)
	}
	w.Queue = []uint64{(off%M + start%M) % M}
	w.State = StAlive
	w.Spawned = true
	m.Living++
	m.emit(EvSpawn, i, off%M)
	return true
}

// Decided reports whether a multi-warrior battle has been decided, or nobody
// is alive.
func (m *Mars) Decided() bool {
	n := len(m.Wars)
	return m.Living == 0 || (n > 1 && m.Living <= 1)
}

// RunCycle returns (living or 0, strict). strict=false: the property text does
// not prescribe the exact effect in this state (DESIGN.md 8.1).
func (m *Mars) RunCycle() (ret int, strict bool) {
	if m.Cycle >= m.Cfg.C || m.Living == 0 {
		return 0, true
	}
	strict = !m.Mixed && !(len(m.Wars) > 1 && m.Living <= 1)
	for _, w := range m.Wars {
		if w.State == StAdded {
			strict = false
		}
	}
	m.cycle()
	return m.Living, strict
}

// Run returns (alive flags, strict).
func (m *Mars) Run() (flags []bool, strict bool) {
	n := len(m.Wars)
	if n == 0 {
		return nil, true
	}
	strict = !m.Mixed
	for _, w := range m.Wars {
		if w.State == StAdded {
			strict = false
		}
	}
	if n > 1 && m.Living <= 1 && m.Executed {
		// already decided earlier: how far a further Run goes is not prescribed
		strict = false
	}
	for m.Cycle < m.Cfg.C {
		if n == 1 && m.Living == 0 {
			break
		}
		if n > 1 && m.Living <= 1 {
			break
		}
		m.cycle()
	}
	flags = make([]bool, n)
	for i, w := range m.Wars {
		flags[i] = w.State == StAlive
	}
	return flags, strict
}

func (m *Mars) Reset() {
	m.emit(EvReset, -1, 0)
	for _, w := range m.Wars {
		w.State = StAdded
		w.Spawned = false
		w.Queue = nil
	}
	for i := range m.Core {
		m.Core[i] = ZeroCell()
	}
	m.Cycle = 0
	m.Living = 0
	m.Executed = false
	m.Mixed = false
}

func (m *Mars) GetMem(a uint64) Ins { return m.Core[a%m.Cfg.M] }
