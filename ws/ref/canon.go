package ref

import (
	"fmt"
	"strings"
)

// Spelling of a field value in a load file.
type Spelling int

const (
	SpUnsigned  Spelling = iota // value in [0,M)
	SpSigned                    // value in (-M/2, M/2]
	SpAboveM                    // value + k*M, k >= 1
	SpBelowNegM                 // value - k*M, k >= 1
)

// FieldText spells v (0 <= v < M) in the requested way; the result is always
// congruent to v modulo M and fits in 31 bits.
func FieldText(v, M uint64, sp Spelling, k uint64) string {
	switch sp {
	case SpSigned:
		if v > M/2 {
			return fmt.Sprintf("-%d", M-v)
		}
		return fmt.Sprintf("%d", v)
	case SpAboveM:
		if x := v + k*M; x < 1<<30 {
			return fmt.Sprintf("%d", x)
		}
	case SpBelowNegM:
		if x := k*M - v; x < 1<<30 && x > 0 {
			return fmt.Sprintf("-%d", x)
		}
	}
	return fmt.Sprintf("%d", v)
}

// CanonLine prints one instruction in the canonical load-file layout:
// "OP.MOD M a, M b" ('94) or "OP M a, M b" ('88), fully explicit.
func CanonLine(i Ins, M uint64, is88 bool, spA, spB Spelling, k uint64) string {
	op := i.Op.String()
	if !is88 {
		op += "." + i.Mod.String()
	}
	return fmt.Sprintf("%s %s %s, %s %s", op, i.AMode, FieldText(i.A, M, spA, k), i.BMode, FieldText(i.B, M, spB, k))
}

// Canon prints a whole warrior: '94 puts "ORG start" first, '88 puts
// "END start" last (pMARS load-file conventions).
func Canon(w Warrior, M uint64, is88 bool, sp func(line int) (Spelling, Spelling, uint64)) []string {
	var out []string
	if !is88 {
		out = append(out, fmt.Sprintf("ORG %d", w.Start))
	}
	for n, c := range w.Code {
		a, b, k := SpUnsigned, SpUnsigned, uint64(1)
		if sp != nil {
			a, b, k = sp(n)
		}
		out = append(out, CanonLine(c, M, is88, a, b, k))
	}
	if is88 {
		out = append(out, fmt.Sprintf("END %d", w.Start))
	}
	return out
}

// ---- linecount: independent classification of load-file lines ---------------

type LineClass int

const (
	LBlank LineClass = iota
	LComment
	LInstructionShaped
	LDirective // ORG / END with or without argument
	LAfterEnd
)

type LineInfo struct {
	Class LineClass
	Dir   string // "org" | "end" for directives
	Arg   string // directive argument text ("" when none)
	NArgs int
	Text  string
}

// ClassifyLoadFile splits the delivered bytes into lines (a final fragment
// without newline is a line) and classifies each. certain=false when some
// line contains characters whose treatment as blanks is implementation
// specific (control characters other than tab/CR, bytes >= 0x80 outside
// comments): the conservation check is then switched off for the case.
func ClassifyLoadFile(data []byte) (lines []LineInfo, certain bool) {
	certain = true
	text := string(data)
	var raw []string
	for len(text) > 0 {
		i := strings.IndexByte(text, '\n')
		if i < 0 {
			raw = append(raw, text)
			break
		}
		raw = append(raw, text[:i])
		text = text[i+1:]
	}
	ended := false
	for _, ln := range raw {
		if ended {
			lines = append(lines, LineInfo{Class: LAfterEnd, Text: ln})
			continue
		}
		body := ln
		if i := strings.IndexByte(body, ';'); i >= 0 {
			body = body[:i]
			if strings.TrimSpace(strings.ReplaceAll(body, ",", " ")) == "" {
				lines = append(lines, LineInfo{Class: LComment, Text: ln})
				continue
			}
		}
		for _, ch := range []byte(body) {
			if ch >= 0x80 || (ch < 0x20 && ch != '\t' && ch != '\r') || ch == 0x7f {
				certain = false
			}
		}
		f := strings.FieldsFunc(body, func(r rune) bool { return r == ' ' || r == '\t' || r == '\r' || r == ',' })
		if len(f) == 0 {
			lines = append(lines, LineInfo{Class: LBlank, Text: ln})
			continue
		}
		head := strings.ToLower(f[0])
		if head == "org" || head == "end" {
			li := LineInfo{Class: LDirective, Dir: head, NArgs: len(f) - 1, Text: ln}
			if len(f) > 1 {
				li.Arg = f[1]
			}
			lines = append(lines, li)
			if head == "end" {
				ended = true
			}
			continue
		}
		lines = append(lines, LineInfo{Class: LInstructionShaped, Text: ln})
	}
	return lines, certain
}
