// Package ref holds the reference models used as oracles. Nothing in this
// package imports or calls gmars; everything is written from the ICWS'88
// standard, the ICWS'94 draft (reference emulator EMI94, section 5.6) and the
// pMARS conventions for the A-number indirect modes.
package ref

// Opcodes, modifiers and modes are numbered by this package; the harness maps
// them onto gmars' constants by NAME, never by number.
type Op uint8

const (
	DAT Op = iota
	MOV
	ADD
	SUB
	MUL
	DIV
	MOD
	JMP
	JMZ
	JMN
	DJN
	CMP // same as SEQ
	SEQ
	SNE
	SLT
	SPL
	NOP
	NumOps
)

var OpNames = [...]string{"DAT", "MOV", "ADD", "SUB", "MUL", "DIV", "MOD", "JMP", "JMZ", "JMN", "DJN", "CMP", "SEQ", "SNE", "SLT", "SPL", "NOP"}

func (o Op) String() string {
	if int(o) < len(OpNames) {
		return OpNames[o]
	}
	return "???"
}

type Mod uint8

const (
	MA Mod = iota
	MB
	MAB
	MBA
	MF
	MX
	MI
	NumMods
)

var ModNames = [...]string{"A", "B", "AB", "BA", "F", "X", "I"}

func (m Mod) String() string {
	if int(m) < len(ModNames) {
		return ModNames[m]
	}
	return "?"
}

type Mode uint8

const (
	Immediate Mode = iota // #
	Direct                // $
	AIndirect             // *
	BIndirect             // @
	APredec               // {
	BPredec               // <
	APostinc              // }
	BPostinc              // >
	NumModes
)

var ModeSyms = [...]string{"#", "$", "*", "@", "{", "<", "}", ">"}

func (m Mode) String() string {
	if int(m) < len(ModeSyms) {
		return ModeSyms[m]
	}
	return "?"
}

// Ins is one core cell.
type Ins struct {
	Op    Op
	Mod   Mod
	AMode Mode
	A     uint64
	BMode Mode
	B     uint64
}

// Warrior is a by-construction program.
type Warrior struct {
	Code  []Ins
	Start int
}
