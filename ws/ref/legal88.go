package ref

// Legal88 reports whether an instruction is legal under the ICWS'88 standard
// (with SLT #B tolerated, as gmars' own suite documents for the hills) and
// which modifier the ICWS'94 draft assigns to that '88 instruction.
//
// ICWS'88 section 3: modes are # $ @ <. DAT takes # or < in both fields.
// MOV ADD SUB CMP: A any mode, B not immediate. JMP JMZ JMN DJN SPL: A not
// immediate, B any. SLT: A any, B not immediate (relaxed here).
func Legal88(i Ins) (ok bool, mod Mod) {
	m88 := func(m Mode) bool { return m == Immediate || m == Direct || m == BIndirect || m == BPredec }
	if !m88(i.AMode) || !m88(i.BMode) {
		return false, 0
	}
	switch i.Op {
	case DAT:
		if (i.AMode != Immediate && i.AMode != BPredec) || (i.BMode != Immediate && i.BMode != BPredec) {
			return false, 0
		}
		return true, MF
	case MOV, CMP:
		if i.BMode == Immediate {
			return false, 0
		}
		if i.AMode == Immediate {
			return true, MAB
		}
		return true, MI
	case ADD, SUB:
		if i.BMode == Immediate {
			return false, 0
		}
		if i.AMode == Immediate {
			return true, MAB
		}
		return true, MF
	case SLT:
		if i.AMode == Immediate {
			return true, MAB
		}
		return true, MB
	case JMP, JMZ, JMN, DJN, SPL:
		if i.AMode == Immediate {
			return false, 0
		}
		return true, MB
	}
	return false, 0
}

// Default94 is the default modifier of the ICWS'94 draft (section 2.4, "default
// modifiers") for an instruction written without one.
func Default94(op Op, am, bm Mode) Mod {
	switch op {
	case DAT, NOP:
		return MF
	case MOV, CMP, SEQ, SNE:
		if am == Immediate {
			return MAB
		}
		if bm == Immediate {
			return MB
		}
		return MI
	case ADD, SUB, MUL, DIV, MOD:
		if am == Immediate {
			return MAB
		}
		if bm == Immediate {
			return MB
		}
		return MF
	case SLT:
		if am == Immediate {
			return MAB
		}
		return MB
	default: // JMP JMZ JMN DJN SPL
		return MB
	}
}

// WellFormed checks the structural predicate of C06/C10 and returns the first
// violated clause ("" when well-formed). maxLen < 0 disables the length clause.
func WellFormed(w Warrior, m uint64, maxLen int64, is88 bool) string {
	n := len(w.Code)
	if n == 0 {
		if w.Start != 0 {
			return "entry point non-zero for empty program"
		}
	} else if w.Start < 0 || w.Start >= n {
		return "entry point outside code"
	}
	if maxLen >= 0 && int64(n) > maxLen {
		return "program longer than configured maximum length"
	}
	for _, c := range w.Code {
		if c.A >= m || c.B >= m {
			return "field not below core size"
		}
		if c.Op >= NumOps || c.Mod >= NumMods || c.AMode >= NumModes || c.BMode >= NumModes {
			return "opcode, modifier or mode outside the data model"
		}
		if is88 {
			ok, mod := Legal88(c)
			if !ok {
				return "instruction not legal under ICWS'88"
			}
			if mod != c.Mod {
				return "modifier differs from the one ICWS'88 implies"
			}
		}
	}
	return ""
}
