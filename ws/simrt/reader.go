package simrt

import (
	"errors"
	"io"
)

// ErrInjected is the non-EOF read error the simulated stream returns.
var ErrInjected = errors.New("simrt: injected read error")

// ReaderPlan describes how a byte slice is delivered.
type ReaderPlan struct {
	MaxChunk    int   // each Read returns 1..MaxChunk bytes (0 = as much as fits)
	ZeroReads   int   // out of 16: probability of a (0,nil) return before data
	EOFWithData bool  // final bytes arrive together with io.EOF
	ErrAt       int   // >=0: return ErrInjected once this many bytes were delivered
	Chunks      []int // explicit chunk sizes (used before MaxChunk rule), for enumeration
}

// Reader is the simulated io.Reader. Its per-call choices come from the tape.
type Reader struct {
	data []byte
	pos  int
	plan ReaderPlan
	tape *Tape
	ci   int
	// stats
	Calls, Zero, Short int
	ErrFired           bool
	EOFWithDataFired   bool
}

// Data returns the bytes this reader can deliver (up to an injected error).
func (r *Reader) Data() []byte {
	if r.plan.ErrAt >= 0 && r.plan.ErrAt < len(r.data) {
		return r.data[:r.plan.ErrAt]
	}
	return r.data
}

func NewReader(data []byte, plan ReaderPlan, tape *Tape) *Reader {
	return &Reader{data: data, plan: plan, tape: tape}
}

//go:norace
func (r *Reader) Read(p []byte) (int, error) {
	r.Calls++
	if len(p) == 0 {
		return 0, nil
	}
	limit := len(r.data)
	if r.plan.ErrAt >= 0 && r.plan.ErrAt < limit {
		limit = r.plan.ErrAt
	}
	if r.pos >= limit {
		if r.plan.ErrAt >= 0 && r.plan.ErrAt <= len(r.data) && r.pos >= r.plan.ErrAt {
			r.ErrFired = true
			return 0, ErrInjected
		}
		return 0, io.EOF
	}
	if r.plan.ZeroReads > 0 && r.tape != nil && r.tape.Draw("rd.zero", 16) < r.plan.ZeroReads {
		r.Zero++
		return 0, nil
	}
	n := limit - r.pos
	if n > len(p) {
		n = len(p)
	}
	if r.ci < len(r.plan.Chunks) {
		if c := r.plan.Chunks[r.ci]; c > 0 && c < n {
			n = c
		}
		r.ci++
	} else if r.plan.MaxChunk > 0 {
		c := r.plan.MaxChunk
		if r.tape != nil && c > 1 {
			c = 1 + r.tape.Draw("rd.chunk", c)
		}
		if c < n {
			n = c
		}
	}
	if n < limit-r.pos {
		r.Short++
	}
	copy(p, r.data[r.pos:r.pos+n])
	r.pos += n
	if r.pos >= limit && r.plan.EOFWithData && !(r.plan.ErrAt >= 0 && r.plan.ErrAt <= len(r.data)) {
		r.EOFWithDataFired = true
		return n, io.EOF
	}
	return n, nil
}
