package simrt

import (
	"cmp"
	"slices"
)

// MapKeys returns the keys of m in an order decided by the choice tape of the
// current run (sorted when no run is active). It replaces the runtime's
// randomised map iteration order in the instrumented copy.
//
//go:norace
func MapKeys[K cmp.Ordered, V any](site int, m map[K]V) []K {
	keys := make([]K, 0, len(m))
	for k := range m {
		keys = append(keys, k)
	}
	slices.Sort(keys)
	var tp *Tape
	if s := cur; s != nil {
		tp = s.tape
		s.mapRanges++
	} else if soloTape != nil {
		tp = soloTape
	}
	if tp != nil && len(keys) > 1 {
		// Fisher-Yates driven by the tape; value 0 everywhere = sorted order.
		for i := 0; i < len(keys)-1; i++ {
			j := i + tp.Draw("maporder", len(keys)-i)
			keys[i], keys[j] = keys[j], keys[i]
		}
	}
	return keys
}

var soloTape *Tape

// SoloTape sets the tape that decides map order outside scheduler runs.
func SoloTape(t *Tape) { soloTape = t }
