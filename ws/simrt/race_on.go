//go:build race

package simrt

import "runtime"

// RaceBuild reports whether the binary was built with the race detector.
const RaceBuild = true

func raceOff() { runtime.RaceDisable() }
func raceOn()  { runtime.RaceEnable() }
