// Package simrt is the runtime linked into the instrumented copy of gmars and
// into the harness: choice tape, seeded cooperative scheduler, step clock,
// map-order seam and simulated io.Reader.
package simrt

// prng is a splitmix64 generator kept inside this package so that every access
// is in //go:norace code: tasks of one simulated run share the tape, one at a
// time, through hand-offs the race detector is deliberately not told about.
type prng struct{ s uint64 }

//go:norace
func (p *prng) next() uint64 {
	p.s += 0x9E3779B97F4A7C15
	z := p.s
	z = (z ^ (z >> 30)) * 0xBF58476D1CE4E5B9
	z = (z ^ (z >> 27)) * 0x94D049BB133111EB
	return z ^ (z >> 31)
}

//go:norace
func (p *prng) intn(n int) int {
	// rejection sampling for an unbiased value in [0,n)
	un := uint64(n)
	lim := ^uint64(0) - (^uint64(0) % un)
	for {
		v := p.next()
		if v < lim {
			return int(v % un)
		}
	}
}

// Draw is one recorded decision.
type Draw struct {
	L string `json:"l"` // label (advisory; replay is positional)
	V int    `json:"v"`
	N int    `json:"n"`
}

// Tape is the single source of every decision of a case. In generate mode the
// values come from one PRNG; in replay mode they are read back positionally,
// reduced modulo the bound, and 0 once the tape is exhausted.
type Tape struct {
	rng    *prng
	replay []int
	pos    int
	Rec    []Draw
	NoRec  bool
	max    bool // constant tape: every draw returns n-1
}

// MaxTape returns a tape whose every draw is the largest value: under the
// scheduler "always run the highest-numbered runnable task" (producers before
// their consumer), reversed map order.
func MaxTape() *Tape { return &Tape{replay: []int{}, max: true, NoRec: true} }

func NewTape(seed uint64, caseNo uint64) *Tape {
	p := &prng{s: seed*0xD6E8FEB86659FD93 ^ (caseNo+1)*0x9E3779B97F4A7C15}
	p.next()
	return &Tape{rng: p}
}

func ReplayTape(vals []int) *Tape {
	cp := make([]int, len(vals))
	copy(cp, vals)
	return &Tape{replay: cp}
}

// Draw returns a value in [0,n). n<=1 returns 0 without consuming the PRNG but
// still records, so positions stay aligned between generate and replay.
//
//go:norace
func (t *Tape) Draw(label string, n int) int {
	v := 0
	if n < 1 {
		n = 1
	}
	if t.max {
		return n - 1
	}
	if t.replay != nil {
		if t.pos < len(t.replay) {
			v = t.replay[t.pos]
			if v < 0 {
				v = -v
			}
			v %= n
		}
		t.pos++
	} else {
		if n > 1 {
			v = t.rng.intn(n)
		}
	}
	if !t.NoRec {
		t.Rec = append(t.Rec, Draw{label, v, n})
	}
	return v
}

// Bool draws true with probability num/den.
func (t *Tape) Bool(label string, num, den int) bool {
	return t.Draw(label, den) < num
}

// Range draws in [lo,hi].
func (t *Tape) Range(label string, lo, hi int) int {
	if hi < lo {
		hi = lo
	}
	return lo + t.Draw(label, hi-lo+1)
}

// Pick draws an index biased towards small values: half the time from the
// first quarter.
func (t *Tape) Values() []int {
	out := make([]int, len(t.Rec))
	for i, d := range t.Rec {
		out[i] = d.V
	}
	return out
}

// Exhausted reports whether a replay tape ran past its end.
func (t *Tape) Exhausted() bool { return t.replay != nil && t.pos > len(t.replay) }
