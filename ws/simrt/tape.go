// Package simrt is the runtime linked into the instrumented copy of gmars and
// into the harness: choice tape, seeded cooperative scheduler, step clock,
// map-order seam and simulated io.Reader.
package simrt

import (
	"math/rand/v2"
)

// Draw is one recorded decision.
type Draw struct {
	L string `json:"l"` // label (advisory; replay is positional)
	V int    `json:"v"`
	N int    `json:"n"`
}

// Tape is the single source of every decision of a case. In generate mode the
// values come from one PRNG; in replay mode they are read back positionally,
// reduced modulo the bound, and 0 once the tape is exhausted.
type Tape struct {
	rng    *rand.Rand
	replay []int
	pos    int
	Rec    []Draw
	NoRec  bool
}

func NewTape(seed uint64, caseNo uint64) *Tape {
	return &Tape{rng: rand.New(rand.NewPCG(seed, caseNo*0x9E3779B97F4A7C15+0x1234567))}
}

func ReplayTape(vals []int) *Tape {
	cp := make([]int, len(vals))
	copy(cp, vals)
	return &Tape{replay: cp}
}

// Draw returns a value in [0,n). n<=1 returns 0 without consuming the PRNG but
// still records, so positions stay aligned between generate and replay.
//
//go:norace
func (t *Tape) Draw(label string, n int) int {
	v := 0
	if n < 1 {
		n = 1
	}
	if t.replay != nil {
		if t.pos < len(t.replay) {
			v = t.replay[t.pos]
			if v < 0 {
				v = -v
			}
			v %= n
		}
		t.pos++
	} else {
		if n > 1 {
			v = t.rng.IntN(n)
		}
	}
	if !t.NoRec {
		t.Rec = append(t.Rec, Draw{label, v, n})
	}
	return v
}

// Bool draws true with probability num/den.
func (t *Tape) Bool(label string, num, den int) bool {
	return t.Draw(label, den) < num
}

// Range draws in [lo,hi].
func (t *Tape) Range(label string, lo, hi int) int {
	if hi < lo {
		hi = lo
	}
	return lo + t.Draw(label, hi-lo+1)
}

// Pick draws an index biased towards small values: half the time from the
// first quarter.
func (t *Tape) Values() []int {
	out := make([]int, len(t.Rec))
	for i, d := range t.Rec {
		out[i] = d.V
	}
	return out
}

// Exhausted reports whether a replay tape ran past its end.
func (t *Tape) Exhausted() bool { return t.replay != nil && t.pos > len(t.replay) }
