package simrt

import (
	"fmt"
	"sort"
)

// Tick is the step clock: one tick per function entry and per loop iteration
// of instrumented code. Exceeding the budget of the current run unwinds the
// calling task with a sentinel panic that the scheduler turns into a
// "no-progress" verdict naming the site.
//
//go:norace
func Tick(site int) {
	s := cur
	if s == nil {
		if soloOn {
			soloTicks++
			if soloMax > 0 && soloTicks > soloMax {
				soloOn = false
				panic(&SoloBudget{Site: SiteName(site)})
			}
		}
		return
	}
	s.ticks++
	if site < len(s.tickHist) {
		s.tickHist[site]++
	}
	if s.tickMax > 0 && s.ticks > s.tickMax {
		panic(&budgetPanic{site: site})
	}
}

//go:norace
func (s *Sim) isSentinel(r any) bool {
	_, ok := r.(*budgetPanic)
	return ok
}

// Solo mode: tick budget for sequential (scheduler-less) engines such as the
// battle and load engines, where there are no goroutines to schedule.
var (
	soloOn    bool
	soloTicks int64
	soloMax   int64
)

// SoloBudget is the panic value raised when a solo budget is exceeded.
type SoloBudget struct{ Site string }

// SoloStart arms the solo tick budget (0 = count only).
func SoloStart(max int64) { soloOn, soloTicks, soloMax = true, 0, max }

// SoloStop disarms it and returns the ticks used.
func SoloStop() int64 { soloOn = false; return soloTicks }

// SoloTicks returns ticks used so far.
func SoloTicks() int64 { return soloTicks }

// TopTickSites returns the (up to n) busiest tick sites of a finished run.
func (s *Sim) topTickSites(n int) []string {
	type sc struct {
		i int
		c int64
	}
	var top []sc
	for i, c := range s.tickHist {
		if c > 0 {
			top = append(top, sc{i, c})
		}
	}
	sort.Slice(top, func(a, b int) bool { return top[a].c > top[b].c })
	var out []string
	for i := 0; i < len(top) && i < n; i++ {
		out = append(out, fmt.Sprintf("%s x%d", SiteName(top[i].i), top[i].c))
	}
	return out
}
