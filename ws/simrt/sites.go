package simrt

import "fmt"

var siteNames = []string{"harness"}

// RegisterSites is called from the init function the instrumenter generates;
// it returns the base index of the registered block.
func RegisterSites(names []string) int {
	base := len(siteNames)
	siteNames = append(siteNames, names...)
	return base
}

func NumSites() int { return len(siteNames) }

//go:norace
func SiteName(i int) string {
	if i >= 0 && i < len(siteNames) {
		return siteNames[i]
	}
	return fmt.Sprintf("site#%d", i)
}
