package simrt

// getg returns the address of the running goroutine's descriptor; it is used
// only as an identity for the lifetime of a task.
func getg() uintptr
