package simrt

import (
	"fmt"
	"runtime"
	"testing"
	"testing/synctest"
)

// Kind of a yield point.
type Kind uint8

const (
	KStart Kind = iota
	KPreSend
	KPostSend
	KPreRecv
	KPostRecv
	KPreClose
	KPostClose
	KPreSelect
	KPostSelect
	KAPI
)

var kindNames = [...]string{"start", "pre-send", "post-send", "pre-recv", "post-recv", "pre-close", "post-close", "pre-select", "post-select", "api"}

func (k Kind) String() string { return kindNames[k] }

// Step is one scheduling decision: task released at (site,kind).
type Step struct {
	Task int  `json:"t"`
	Site int  `json:"s"`
	Kind Kind `json:"k"`
	Of   int  `json:"of"` // how many tasks were runnable
}

type task struct {
	id     int
	goid   uintptr
	permit chan struct{}
	done   chan struct{}
	site   int
	kind   Kind
	parked bool
	fin    bool
	name   string
	// last position even when not parked (for leak reports)
	lastSite int
	lastKind Kind
}

// PanicInfo describes a panic caught in a task.
type PanicInfo struct {
	Task  int    `json:"task"`
	Name  string `json:"name"`
	Value string `json:"value"`
	Stack string `json:"stack"`
}

// Blocked describes a task that is not finished and not parked at a yield
// after quiescence: it is blocked inside a real channel operation.
type Blocked struct {
	Task int    `json:"task"`
	Name string `json:"name"`
	Site string `json:"site"`
	Kind string `json:"kind"`
}

// Outcome of one simulated run.
type Outcome struct {
	MainDone  bool
	Budget    bool   // tick or step budget exceeded
	BudgetAt  string // site that exceeded
	Panics    []PanicInfo
	Leaked    []Blocked // main returned, these never finished
	Deadlock  []Blocked // main did not return and nothing runnable
	Trace     []Step
	Steps     int
	Ticks     int64
	Tasks     int
	Sends     int64
	MapRanges int
	TopSites  []string // busiest tick sites (for no-progress verdicts)
	Orders    []uint64 // (siteA<<32|siteB): a task at siteA was released right before a DIFFERENT task at siteB
}

// Sim is one simulated run.
type Sim struct {
	tape      *Tape
	tasks     []*task
	trace     []Step
	maxSteps  int
	aborted   bool
	budgetAt  string
	panics    []PanicInfo
	ticks     int64
	tickMax   int64
	tickHist  []int64
	sentinel  *budgetPanic
	mapRanges int
	orders    []uint64
	sends     int64
}

type budgetPanic struct{ site int }

var cur *Sim

// Active reports whether a simulation is running.
//
//go:norace
func Active() bool { return cur != nil }

//go:norace
func (s *Sim) self() *task {
	g := getg()
	for i := len(s.tasks) - 1; i >= 0; i-- {
		if t := s.tasks[i]; t.goid == g && !t.fin {
			return t
		}
	}
	return nil
}

// Go starts f as a task of the current simulation (or as a plain goroutine when
// none is active).
//
//go:norace
func Go(site int, f func()) {
	s := cur
	if s == nil {
		go f()
		return
	}
	s.spawn(site, SiteName(site), f, false)
}

//go:norace
func (s *Sim) spawn(site int, name string, f func(), fromControl bool) *task {
	t := &task{id: len(s.tasks), permit: make(chan struct{}), done: make(chan struct{}), site: site, kind: KStart, name: name}
	s.tasks = append(s.tasks, t)
	ready := make(chan struct{})
	if fromControl {
		// the goroutine start must carry the usual happens-before edge from
		// whoever prepared the task's inputs
		raceOn()
	}
	go func() {
		raceOff()
		t.goid = getg()
		t.parked = true
		close(ready)
		<-t.permit
		t.parked = false
		raceOn()
		defer s.finish(t)
		f()
	}()
	if fromControl {
		raceOff()
	}
	raceOff()
	<-ready
	raceOn()
	return t
}

//go:norace
func (s *Sim) finish(t *task) {
	if r := recover(); r != nil {
		if bp, ok := r.(*budgetPanic); ok {
			s.aborted = true
			s.budgetAt = SiteName(bp.site)
		} else {
			buf := make([]byte, 8192)
			n := runtime.Stack(buf, false)
			s.panics = append(s.panics, PanicInfo{Task: t.id, Name: t.name, Value: fmt.Sprint(r), Stack: string(buf[:n])})
		}
	}
	t.fin = true
	close(t.done)
}

// Yield parks the calling task until the controller releases it.
//
//go:norace
func Yield(site int, kind Kind) {
	s := cur
	if s == nil {
		return
	}
	t := s.self()
	if t == nil {
		// goroutine not started through Go (e.g. left over from an earlier
		// run): let it pass.
		return
	}
	if kind == KPreSend {
		s.sends++
	}
	t.site, t.kind = site, kind
	t.lastSite, t.lastKind = site, kind
	t.parked = true
	raceOff()
	<-t.permit
	raceOn()
	t.parked = false
}

// Send, Recv, Recv2 and Close perform the real channel operation bracketed by
// yields.
func Send[T any](site int, ch chan<- T, v T) {
	Yield(site, KPreSend)
	ch <- v
	Yield(site, KPostSend)
}

func Recv[T any](site int, ch <-chan T) T {
	Yield(site, KPreRecv)
	v := <-ch
	Yield(site, KPostRecv)
	return v
}

func Recv2[T any](site int, ch <-chan T) (T, bool) {
	Yield(site, KPreRecv)
	v, ok := <-ch
	Yield(site, KPostRecv)
	return v, ok
}

func Close[T any](site int, ch chan<- T) {
	Yield(site, KPreClose)
	close(ch)
	Yield(site, KPostClose)
}

// Config of one run.
type Config struct {
	Tape     *Tape
	MaxSteps int   // scheduling decisions
	MaxTicks int64 // step clock budget
}

// Run executes mainFn as task 0 under the seeded scheduler inside a synctest
// bubble and returns when the system is quiescent or a budget is exceeded.
// Extra jobs (for multi-job runs) are started as further top-level tasks.
func Run(t *testing.T, cfg Config, mainFn func(), jobs ...func()) (out Outcome) {
	s := &Sim{tape: cfg.Tape, maxSteps: cfg.MaxSteps, tickMax: cfg.MaxTicks}
	s.sentinel = &budgetPanic{}
	s.tickHist = make([]int64, NumSites()+1)
	if s.maxSteps == 0 {
		s.maxSteps = 1 << 20
	}
	func() {
		defer func() {
			// synctest panics when the root goroutine exits while bubble
			// goroutines are durably blocked (our leaked/aborted tasks).
			if r := recover(); r != nil {
				msg := fmt.Sprint(r)
				if e, ok := r.(error); ok {
					msg = e.Error()
				}
				if len(msg) >= 8 && msg[:8] == "deadlock" {
					return
				}
				panic(r)
			}
		}()
		synctest.Test(t, func(t *testing.T) {
			s.control(mainFn, jobs)
		})
	}()
	out.Trace = s.trace
	out.Steps = len(s.trace)
	out.Ticks = s.ticks
	out.Tasks = len(s.tasks)
	out.Sends = s.sends
	out.MapRanges = s.mapRanges
	out.Orders = s.orders
	if s.aborted {
		out.TopSites = s.topTickSites(4)
	}
	out.Panics = s.panics
	out.Budget = s.aborted
	out.BudgetAt = s.budgetAt
	mainDone := true
	for i, tk := range s.tasks {
		if i <= len(jobs) && !tk.fin {
			mainDone = false
		}
	}
	out.MainDone = mainDone
	if !s.aborted {
		for i, tk := range s.tasks {
			if tk.fin {
				continue
			}
			b := Blocked{Task: tk.id, Name: tk.name, Site: SiteName(tk.lastSite), Kind: tk.lastKind.String()}
			if mainDone && i > len(jobs) {
				out.Leaked = append(out.Leaked, b)
			} else if !mainDone {
				out.Deadlock = append(out.Deadlock, b)
			}
		}
	}
	return out
}

//go:norace
func (s *Sim) control(mainFn func(), jobs []func()) {
	// nothing that uses sync.Pool (fmt) may run between raceOff and raceOn:
	// the pool's own synchronisation would be ignored and reported as a race
	names := make([]string, len(jobs))
	for i := range jobs {
		names[i] = "job" + string(rune('1'+i%9))
	}
	raceOff()
	cur = s
	defer func() {
		cur = nil
		raceOn()
	}()
	s.spawn(0, "main", mainFn, true)
	for i, j := range jobs {
		s.spawn(0, names[i], j, true)
	}
	var parked []*task
	for {
		synctest.Wait()
		if s.aborted {
			break
		}
		parked = parked[:0]
		for _, t := range s.tasks {
			if t.parked && !t.fin {
				parked = append(parked, t)
			}
		}
		if len(parked) == 0 {
			break
		}
		if len(s.trace) >= s.maxSteps {
			s.aborted = true
			s.budgetAt = "scheduler-steps"
			break
		}
		k := 0
		if len(parked) > 1 {
			k = s.tape.Draw("sched", len(parked))
		}
		t := parked[k]
		if n := len(s.trace); n > 0 && s.trace[n-1].Task != t.id && len(s.orders) < 4096 {
			s.orders = append(s.orders, uint64(s.trace[n-1].Site)<<32|uint64(uint32(t.site)))
		}
		s.trace = append(s.trace, Step{Task: t.id, Site: t.site, Kind: t.kind, Of: len(parked)})
		t.permit <- struct{}{}
	}
	// Make results written by finished top-level tasks visible to the caller
	// for the race detector too.
	raceOn()
	for i, t := range s.tasks {
		if i <= len(jobs) && t.fin {
			<-t.done
		}
	}
	raceOff()
}
