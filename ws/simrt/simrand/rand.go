// Package simrand is an API-compatible subset of math/rand whose stream is
// decided by VERIF_RAND_SEED and whose draws are appended to VERIF_RAND_LOG.
// The instrumenter substitutes it for math/rand in cmd/gmars only.
package simrand

import (
	"fmt"
	mr "math/rand"
	"os"
	"strconv"
	"sync"
)

var (
	mu  sync.Mutex
	src *mr.Rand
	log *os.File
)

func get() *mr.Rand {
	if src == nil {
		seed := int64(1)
		if s := os.Getenv("VERIF_RAND_SEED"); s != "" {
			if v, err := strconv.ParseInt(s, 10, 64); err == nil {
				seed = v
			}
		}
		src = mr.New(mr.NewSource(seed))
		if p := os.Getenv("VERIF_RAND_LOG"); p != "" {
			log, _ = os.OpenFile(p, os.O_CREATE|os.O_WRONLY|os.O_APPEND, 0o644)
		}
	}
	return src
}

func record(kind string, n int64, v int64) {
	if log != nil {
		fmt.Fprintf(log, "%s %d %d\n", kind, n, v)
	}
}

func Seed(seed int64) {
	mu.Lock()
	defer mu.Unlock()
	get()
	record("Seed", seed, 0) /* ignored: the simulator owns the seed */
}

func Intn(n int) int {
	mu.Lock()
	defer mu.Unlock()
	v := get().Intn(n)
	record("Intn", int64(n), int64(v))
	return v
}

func Int() int {
	mu.Lock()
	defer mu.Unlock()
	v := get().Int()
	record("Int", 0, int64(v))
	return v
}

func Int31() int32 {
	mu.Lock()
	defer mu.Unlock()
	v := get().Int31()
	record("Int31", 0, int64(v))
	return v
}
func Int63() int64 { mu.Lock(); defer mu.Unlock(); v := get().Int63(); record("Int63", 0, v); return v }
func Uint32() uint32 {
	mu.Lock()
	defer mu.Unlock()
	v := get().Uint32()
	record("Uint32", 0, int64(v))
	return v
}
func Uint64() uint64 {
	mu.Lock()
	defer mu.Unlock()
	v := get().Uint64()
	record("Uint64", 0, int64(v))
	return v
}

func Int31n(n int32) int32 {
	mu.Lock()
	defer mu.Unlock()
	v := get().Int31n(n)
	record("Int31n", int64(n), int64(v))
	return v
}

func Int63n(n int64) int64 {
	mu.Lock()
	defer mu.Unlock()
	v := get().Int63n(n)
	record("Int63n", n, v)
	return v
}

func Float64() float64 {
	mu.Lock()
	defer mu.Unlock()
	v := get().Float64()
	record("Float64", 0, int64(v*1e9))
	return v
}
func Float32() float32 {
	mu.Lock()
	defer mu.Unlock()
	v := get().Float32()
	record("Float32", 0, int64(v*1e9))
	return v
}

func Perm(n int) []int {
	mu.Lock()
	defer mu.Unlock()
	v := get().Perm(n)
	record("Perm", int64(n), 0)
	return v
}

func Shuffle(n int, swap func(i, j int)) {
	mu.Lock()
	defer mu.Unlock()
	get().Shuffle(n, swap)
	record("Shuffle", int64(n), 0)
}

// Rand, Source, New and NewSource let code that builds its own generator
// compile; such generators are seeded by the simulator's seed as well.
type Rand = mr.Rand
type Source = mr.Source

func NewSource(seed int64) mr.Source {
	mu.Lock()
	defer mu.Unlock()
	get()
	record("NewSource", seed, 0)
	return mr.NewSource(src.Int63())
}

func New(s mr.Source) *mr.Rand { return mr.New(s) }
