//go:build !race

package simrt

const RaceBuild = false

func raceOff() {}
func raceOn()  {}
