#include "textflag.h"

// func getg() uintptr
TEXT ·getg(SB),NOSPLIT,$0-8
	MOVQ (TLS), AX
	MOVQ AX, ret+0(FP)
	RET
